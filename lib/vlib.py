"""Shared machinery for /verif checks: scratch hygiene, Go overlay builds, TLC runs,
evidence, known findings, verdict/exit codes.

Exit codes: 0 property held on everything explored (KNOWN-FINDING lines allowed),
            1 VIOLATION (line printed), 2 machinery error (never a verdict).
"""
import atexit, hashlib, json, os, re, shutil, signal, subprocess, sys, tempfile, time

VERIF = os.path.dirname(os.path.dirname(os.path.abspath(__file__)))
REPO = os.environ.get("VERIF_REPO", "/repo")
SPECS = os.path.join(VERIF, "specs")
OVERLAY_SRC = os.path.join(VERIF, "harness", "overlay")
EVIDENCE = os.path.join(VERIF, "evidence")
REPLAYS = os.path.join(VERIF, "replays")
FINDINGS = os.path.join(VERIF, "known_findings.json")
GO124 = "/root/go/pkg/mod/golang.org/toolchain@v0.0.1-go1.24.0.linux-amd64/bin/go"
MODULE = "github.com/AliyunContainerService/terway"
NCPU = os.cpu_count() or 4


class MachineryError(Exception):
    pass


def log(*a):
    print("[verif]", *a, file=sys.stderr, flush=True)


class Ctx:
    def __init__(self, prop, tier, seed):
        self.prop, self.tier, self.seed = prop, tier, int(seed)
        self.t0 = time.time()
        self.scratch = tempfile.mkdtemp(prefix="verif-%s-" % prop, dir=os.environ.get("VERIF_TMP", "/tmp"))
        self.keep = bool(os.environ.get("VERIF_KEEP"))
        atexit.register(self.cleanup)
        self.tlc_states = 0
        self.tlc_transitions = 0
        self.tlc_runs = []
        self.violations = []   # dicts: {sig, what, detail}
        self.known_hits = []
        self.notes = []

    def cleanup(self):
        subprocess.call(["pkill", "-f", self.scratch], stdout=subprocess.DEVNULL, stderr=subprocess.DEVNULL)
        if not self.keep:
            shutil.rmtree(self.scratch, ignore_errors=True)

    def sub(self, name):
        p = os.path.join(self.scratch, name)
        os.makedirs(p, exist_ok=True)
        return p

    @property
    def quick(self):
        return self.tier == "quick"


# ----------------------------------------------------------------------------- Go side

def go_env():
    e = dict(os.environ)
    e.update(GOFLAGS="-mod=mod", GOPROXY="off", GOTOOLCHAIN="local", CGO_ENABLED=e.get("CGO_ENABLED", "1"))
    e.pop("GOSUMDB", None)
    return e


def go_bin():
    if os.path.exists(GO124):
        return GO124
    return "go"


def make_overlay(ctx):
    """Map every file under harness/overlay/<rel> to /repo/<rel>. Only *new* names: refuse to
    shadow an existing repository file, so a change to any product file is always compiled in."""
    rep = {}
    for root, _, files in os.walk(OVERLAY_SRC):
        for f in files:
            src = os.path.join(root, f)
            rel = os.path.relpath(src, OVERLAY_SRC)
            dst = os.path.join(REPO, rel)
            if os.path.exists(dst):
                if os.environ.get("VERIF_COVER") and open(dst, "rb").read() == open(src, "rb").read():
                    continue          # coverage mode (tools/impl_coverage.py): the scratch copy already holds the harness file
                raise MachineryError("overlay would shadow repository file %s" % dst)
            rep[dst] = src
    p = os.path.join(ctx.scratch, "overlay.json")
    with open(p, "w") as fh:
        json.dump({"Replace": rep}, fh)
    return p


def go_build_tests(ctx, pkgs, race=False):
    """Build test binaries of the given repo-relative packages from /repo's working tree with the
    harness overlay and tags default_build,verif. Returns {pkg: path}."""
    ov = make_overlay(ctx)
    out = {}
    bindir = ctx.sub("bin")
    for pkg in pkgs:
        name = pkg.strip("./").replace("/", "_") + (".race" if race else "") + ".test"
        dst = os.path.join(bindir, name)
        cmd = [go_bin(), "test", "-c", "-overlay", ov, "-tags", "default_build,verif", "-vet=off"]
        if race:
            cmd.append("-race")
        if os.environ.get("VERIF_COVER"):
            # opt-in (tools/impl_coverage.py): statement coverage of the product code under the harness runs
            cmd += ["-cover", "-covermode=atomic", "-coverpkg=" + os.environ.get("VERIF_COVERPKG", "./...")]
        cmd += ["-o", dst, "./" + pkg.strip("./")]
        t = time.time()
        r = subprocess.run(cmd, cwd=REPO, env=go_env(), stdout=subprocess.PIPE, stderr=subprocess.STDOUT, text=True)
        if r.returncode != 0 or not os.path.exists(dst):
            raise MachineryError("go build of %s failed:\n%s" % (pkg, r.stdout[-4000:]))
        log("built %s in %.1fs" % (pkg, time.time() - t))
        out[pkg] = dst
    return out


def run_test_bin(ctx, binary, run, env=None, timeout=600, netns=False, cwd=None, args=()):
    """Run one harness entry point (a Test function) of a built test binary."""
    e = go_env()
    e.update(env or {})
    e.setdefault("VERIF_SEED", str(ctx.seed))
    e.setdefault("VERIF_TIER", ctx.tier)
    cmd = [binary, "-test.run", "^%s$" % run, "-test.count=1", "-test.timeout", "%ds" % timeout, "-test.v"] + list(args)
    if os.environ.get("VERIF_COVER"):
        os.makedirs(os.environ["VERIF_COVER"], exist_ok=True)
        cmd.append("-test.coverprofile=%s" % os.path.join(os.environ["VERIF_COVER"], "%s-%s-%s.out" % (ctx.prop, run, os.urandom(6).hex())))
    if netns:
        cmd = ["unshare", "-n", "--"] + cmd
    try:
        r = subprocess.run(cmd, cwd=cwd or ctx.scratch, env=e, stdout=subprocess.PIPE, stderr=subprocess.STDOUT,
                           text=True, timeout=timeout + 30)
    except subprocess.TimeoutExpired as ex:
        raise MachineryError("harness %s timed out after %ds" % (run, timeout))
    if "no tests to run" in r.stdout:
        raise MachineryError("harness entry %s not found in %s" % (run, binary))
    return r.returncode, r.stdout


# ----------------------------------------------------------------------------- TLC side

class TlcResult:
    def __init__(self):
        self.rc = None
        self.out = ""
        self.generated = 0
        self.distinct = 0
        self.depth = 0
        self.errors = []
        self.inv_violated = []
        self.coverage_zero = []
        self.wall = 0.0

    @property
    def ok(self):
        return self.rc == 0 and not self.errors


def _copy_specs(dst):
    for f in os.listdir(SPECS):
        if f.endswith(".tla") or f.endswith(".cfg"):
            shutil.copy(os.path.join(SPECS, f), dst)


def tlc(ctx, module, cfg=None, env=None, workers=None, timeout=600, simulate=None, depth=None,
        extra=(), coverage=False, dfs=False, tag=None, heap=None, allow_fail=False, stage=None):
    """Run TLC on specs/<module>.tla in a scratch copy. Never interprets a failure as a verdict;
    the caller decides. Raises MachineryError on time-out / crash / parse errors."""
    d = ctx.sub("tlc-%s-%d" % (tag or module, len(ctx.tlc_runs)))
    _copy_specs(d)
    if stage:
        for f in os.listdir(stage):
            shutil.copy(os.path.join(stage, f), d)
    cfgf = cfg or (module + ".cfg")
    cmd = ["timeout", str(int(timeout)), "java", "-XX:+UseParallelGC"]
    if heap:
        cmd.append("-Xmx%s" % heap)
    cmd += ["-Xss64m", "-Djava.io.tmpdir=" + d]      # TLC leaves an empty tlc-<n> directory in java.io.tmpdir per run: keep it in the scratch
    if dfs:
        cmd.append("-Dtlc2.tool.queue.IStateQueue=StateDeque")
    cmd += ["-cp", "/opt/veriftools/tla/tla2tools.jar:/opt/veriftools/tla/CommunityModules-deps.jar", "tlc2.TLC",
            "-metadir", os.path.join(d, "md"), "-config", cfgf, "-workers", str(workers or "auto")]
    if simulate:
        cmd += ["-simulate", simulate]
    if depth:
        cmd += ["-depth", str(depth)]
    if coverage:
        cmd += ["-coverage", "1"]
    cmd += list(extra) + [module + ".tla"]
    e = dict(os.environ)
    e.update(env or {})
    t = time.time()
    r = subprocess.run(cmd, cwd=d, env=e, stdout=subprocess.PIPE, stderr=subprocess.STDOUT, text=True)
    res = TlcResult()
    res.rc, res.out, res.wall = r.returncode, r.stdout, time.time() - t
    res.dir = d
    m = None
    for m in re.finditer(r"(\d+) states generated, (\d+) distinct states found", r.stdout):
        pass
    if m:
        res.generated, res.distinct = int(m.group(1)), int(m.group(2))
    m = re.search(r"depth of the complete state graph search is (\d+)", r.stdout)
    if m:
        res.depth = int(m.group(1))
    for m in re.finditer(r"Error: (.*)", r.stdout):
        res.errors.append(m.group(1).strip())
    for m in re.finditer(r"Invariant (\S+) is violated", r.stdout):
        res.inv_violated.append(m.group(1))
    for m in re.finditer(r"Action property (\S+) is violated", r.stdout):
        res.inv_violated.append(m.group(1))
    if coverage:
        for m in re.finditer(r"<(\w+) line \d+, col \d+ to line \d+, col \d+ of module (\w+)>: (\d+):(\d+)", r.stdout):
            if m.group(3) == "0" and m.group(4) == "0":
                res.coverage_zero.append(m.group(1))
    ctx.tlc_runs.append(dict(module=module, cfg=cfgf, rc=res.rc, generated=res.generated, distinct=res.distinct,
                             wall_s=round(res.wall, 1), simulate=simulate))
    ctx.tlc_states += res.distinct
    ctx.tlc_transitions += res.generated
    if r.returncode == 124:
        raise MachineryError("TLC %s/%s timed out after %ds" % (module, cfgf, timeout))
    if "Parsing or semantic analysis failed" in r.stdout or "java.lang.OutOfMemoryError" in r.stdout \
            or "StackOverflowError" in r.stdout or "Error: TLC threw an unexpected exception" in r.stdout:
        if not allow_fail:
            raise MachineryError("TLC %s/%s crashed:\n%s" % (module, cfgf, r.stdout[-3000:]))
    return res


def tlc_mc(ctx, module, cfg, timeout=900, workers=None, coverage=False, env=None, heap=None):
    """Exhaustive model check of the *specification*. A counterexample here is a design finding or a
    modelling error, never a verdict on the code: it is a machinery error (exit 2)."""
    res = tlc(ctx, module, cfg=cfg, timeout=timeout, workers=workers, coverage=coverage, env=env, heap=heap)
    if not res.ok:
        raise MachineryError("spec-level TLC run %s/%s did not pass (rc=%s): %s\n%s" % (
            module, cfg, res.rc, res.errors[:3], res.out[-3000:]))
    log("TLC %s/%s: %d generated, %d distinct, depth %d, %.1fs" % (module, cfg, res.generated, res.distinct, res.depth, res.wall))
    return res


# ----------------------------------------------------------------------------- io helpers

def read_ndjson(p):
    out = []
    with open(p) as fh:
        for line in fh:
            line = line.strip()
            if line:
                out.append(json.loads(line))
    return out


def write_ndjson(p, rows):
    with open(p, "w") as fh:
        for r in rows:
            fh.write(json.dumps(r, sort_keys=True, separators=(",", ":")) + "\n")


def h(obj):
    return hashlib.sha1(json.dumps(obj, sort_keys=True).encode()).hexdigest()[:12]


# ----------------------------------------------------------------------------- findings / verdict

def load_findings(prop):
    if not os.path.exists(FINDINGS):
        return []
    with open(FINDINGS) as fh:
        data = json.load(fh)
    return [f for f in data.get("findings", []) if f.get("property") == prop]


def match_finding(f, viol):
    """A known finding suppresses a violation only if status == known, the clause matches and every
    key of 'where' matches the violating case (regex on the JSON text of that key's value)."""
    if f.get("status") != "known":
        return False
    if f.get("clause") and f["clause"] != viol.get("clause"):
        return False
    for k, rx in (f.get("where") or {}).items():
        v = viol.get("case", {})
        for part in k.split("."):
            v = v.get(part) if isinstance(v, dict) else None
        if v is None or not re.search(rx, json.dumps(v, sort_keys=True)):
            return False
    return True


def add_violation(ctx, clause, case, what=""):
    ctx.violations.append(dict(clause=clause, case=case, what=what))


def save_replay(ctx, viol, k, extra_files=()):
    os.makedirs(REPLAYS, exist_ok=True)
    d = os.path.join(REPLAYS, "%s-%d-%d" % (ctx.prop, ctx.seed, k))
    shutil.rmtree(d, ignore_errors=True)
    os.makedirs(d)
    with open(os.path.join(d, "violation.json"), "w") as fh:
        json.dump(dict(property=ctx.prop, tier=ctx.tier, seed=ctx.seed, **viol), fh, indent=1, sort_keys=True, default=str)
    for f in extra_files:
        if f and os.path.exists(f):
            shutil.copy(f, d)
    return d


def finish(ctx, level, coverage, assumptions, extra_files=()):
    """Classify violations against known findings, write evidence, print verdict lines, exit."""
    findings = load_findings(ctx.prop)
    unknown, known = [], {}
    for v in ctx.violations:
        hit = None
        for f in findings:
            if match_finding(f, v):
                hit = f
                break
        if hit:
            known.setdefault(hit["id"], [hit, 0])
            known[hit["id"]][1] += 1
        else:
            unknown.append(v)
    for fid, (f, n) in sorted(known.items()):
        print("KNOWN-FINDING: property=%s %s [%s, %d failing case(s) this run]" % (ctx.prop, f["what"], fid, n))
    rc = 0
    seen = set()
    k = 0
    for v in unknown:
        key = (v["clause"], h(v["case"]))
        if key in seen:
            continue
        seen.add(key)
        if k < 5:
            path = save_replay(ctx, v, k, extra_files)
            print("VIOLATION property=%s replay=%s" % (ctx.prop, path))
            print("  clause=%s %s" % (v["clause"], v.get("what", "")))
        k += 1
        rc = 1
    coverage = dict(coverage)
    coverage.setdefault("states", ctx.tlc_states)
    coverage.setdefault("transitions", ctx.tlc_transitions)
    coverage["tlc_runs"] = ctx.tlc_runs
    coverage["known_finding_hits"] = {fid: n for fid, (f, n) in known.items()}
    if ctx.notes:
        coverage["notes"] = ctx.notes
    ev = dict(property_id=ctx.prop, tier=ctx.tier, seed=ctx.seed, level=level, coverage=coverage,
              assumptions=assumptions, wall_s=round(time.time() - ctx.t0, 1), violations=len(seen))
    os.makedirs(EVIDENCE, exist_ok=True)
    with open(os.path.join(EVIDENCE, ctx.prop + ".json"), "w") as fh:
        json.dump(ev, fh, indent=1, sort_keys=True, default=str)
    print("%s property=%s tier=%s seed=%d states=%d traces=%s wall=%.1fs" % (
        "FAIL" if rc else "PASS", ctx.prop, ctx.tier, ctx.seed, coverage.get("states", 0),
        coverage.get("traces_validated_against_impl", "-"), time.time() - ctx.t0))
    return rc
