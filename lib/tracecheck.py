"""Scenario generation by TLC simulation and trace validation by TLC.

Trace validation protocol (see specs/*_trace.tla): the log is an ndjson file; the trace spec consumes one line per
event action; property invariants are CONSTRAINTs (they prune behaviours that violate them), acceptance is the
inverted invariant NotAccepted (violated <=> some behaviour of the spec consumes the whole log). A run that ends
without reaching the end of the log is a rejection; the high-water mark says which line could not be explained.
"""
import os, re, json
from vlib import *


def simulate(ctx, module, cfg, num, depth, env=None, seed=None, timeout=600, stage=None):
    out = os.path.join(ctx.scratch, "%s.scen.%d.ndjson" % (module, len(ctx.tlc_runs)))
    e = dict(env or {})
    e["VERIF_SCEN"] = out
    res = tlc(ctx, module, cfg=cfg, env=e, workers=1, timeout=timeout, simulate="num=%d" % num, depth=depth,
              extra=["-seed", str(seed if seed is not None else ctx.seed)], stage=stage)
    if res.rc != 0 or not os.path.exists(out):
        raise MachineryError("scenario generation %s failed rc=%s:\n%s" % (module, res.rc, res.out[-3000:]))
    return out


def validate(ctx, module, cfg_text, rows, timeout=900, dfs=True, extra_env=None, tag="trace"):
    """Returns (accepted, highwater, TlcResult). highwater = index (1-based) of the first line no behaviour
    of the spec could consume (only meaningful when rejected)."""
    d = ctx.sub("val-%d" % len(ctx.tlc_runs))
    logf = os.path.join(d, "log.ndjson")
    write_ndjson(logf, rows)
    stage = os.path.join(d, "stage")
    os.makedirs(stage, exist_ok=True)
    with open(os.path.join(stage, module + "_run.cfg"), "w") as fh:
        fh.write(cfg_text)
    env = {"VERIF_TRACE": logf}
    env.update(extra_env or {})
    res = tlc(ctx, module, cfg=module + "_run.cfg", env=env, workers=1, timeout=timeout, dfs=dfs, stage=stage, tag=tag)
    if "NotAccepted" in res.inv_violated and len(res.inv_violated) == 1:
        return True, len(rows) + 1, res
    if res.rc == 0 and not res.errors:
        m = re.search(r'"HIGHWATER", (\d+)', res.out)
        if not m:
            raise MachineryError("trace validation %s: no high-water mark in output:\n%s" % (module, res.out[-2000:]))
        return False, int(m.group(1)), res
    raise MachineryError("trace validation %s failed unexpectedly rc=%s errors=%s\n%s" % (module, res.rc, res.errors[:3], res.out[-3000:]))


def split_traces(rows, key="reset"):
    traces, cur = [], None
    for r in rows:
        if r.get("ev") == key:
            cur = [r]
            traces.append(cur)
        elif cur is not None:
            cur.append(r)
    return traces


def validate_many(ctx, module, cfg_text, traces, max_reruns=4, timeout=900, extra_env=None, chunk=200):
    """Validate many traces (each starting with a reset line) in few TLC runs. Returns list of
    (trace_index, line_index_in_trace) for rejected traces."""
    rejected = []
    pending = list(range(len(traces)))
    reruns = 0
    while pending:
        batch, pending = pending[:chunk], pending[chunk:]
        while batch:
            rows = [r for k in batch for r in traces[k]]
            ok, hw, res = validate(ctx, module, cfg_text, rows, timeout=timeout, extra_env=extra_env)
            if ok:
                break
            # locate the trace containing line hw
            pos = 0
            bad = None
            for k in batch:
                if pos + len(traces[k]) >= hw:
                    bad = (k, hw - pos)
                    break
                pos += len(traces[k])
            if bad is None:
                raise MachineryError("high-water mark %d outside the log (%d lines)" % (hw, len(rows)))
            rejected.append(bad)
            i = batch.index(bad[0])
            batch = batch[i + 1:]          # everything before was accepted (consumed in order)
            reruns += 1
            if reruns > max_reruns:
                ctx.notes.append("stopped re-validating after %d rejections; %d traces not judged" % (reruns, len(batch) + len(pending)))
                return rejected
    return rejected
