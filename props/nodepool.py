"""Shared runner for C01 / C06 / C07 (specs/NodePool.tla, harness pkg/eni TestVerifPool)."""
import subprocess, concurrent.futures
from vlib import *
import tracecheck as tc
import factory

PKG = "pkg/eni"


def trace_cfg(prop):
    return ("SPECIFICATION TSpec\nCONSTANTS\n  Pods = {1,2,3,4}\n  Reqs = {%s}\n  Enis = {1,2,3,4,5,6,7,8,9,10,11,12}\n"
            "  A4 = {}\n  A6 = {}\n  Enforce = {\"%s\"}\n"
            "CONSTRAINT Inv%s\nCONSTRAINT HighWater\nINVARIANT NotAccepted\nPOSTCONDITION Report\nCHECK_DEADLOCK FALSE\n" % (
                ",".join(str(i) for i in range(1, 41)), prop, prop))


def run_harness(ctx, binary, nshard, env):
    """Run the pool harness in nshard parallel processes (each scenario pays 300 ms sleeps per factory round)."""
    def one(k):
        tf = os.path.join(ctx.scratch, "pool.%d.trace.ndjson" % k)
        e = dict(env)
        e.update(VERIF_TRACE=tf, VERIF_SHARD="%d/%d" % (k, nshard))
        # A shard normally takes 30-60 s (quick) / 3-6 min (thorough). Rarely (about one thorough run in four on a loaded machine) one
        # shard hangs without any CPU use - a lost wake-up at shutdown / a stuck waiter are known liveness weaknesses of the pool
        # (DESIGN 11.3, L1 and the C12 builder's note), not safety verdicts. The incomplete trace of such an attempt is discarded and
        # the shard is run once more; only a second failure is a machinery error.
        last = ""
        for attempt in (1, 2):
            if os.path.exists(tf):
                os.remove(tf)
            try:
                rc, out = run_test_bin(ctx, binary, "TestVerifPool", env=e, timeout=900 if ctx.quick else 1500)
            except MachineryError as ex:
                rc, out = -1, str(ex)
            if rc == 0 and os.path.exists(tf):
                break
            last = "attempt %d: rc=%s\n%s" % (attempt, rc, out[-2500:])
            log("pool harness shard %d attempt %d failed (rc=%s)%s" % (k, attempt, rc, ", running it once more" if attempt == 1 else ""))
            ctx.notes.append("pool harness shard %d: attempt %d failed rc=%s" % (k, attempt, rc))
        else:
            raise MachineryError("pool harness shard %d failed twice\n%s" % (k, last))
        rows = read_ndjson(tf)
        rows.sort(key=lambda r: r["seq"])
        return tc.split_traces(rows)
    with concurrent.futures.ThreadPoolExecutor(max_workers=nshard) as ex:
        parts = list(ex.map(one, range(nshard)))
    return [t for p in parts for t in p]


def strip(t):
    drop = ("seq", "plan", "err", "rollback", "scen", "held", "faults", "drain_ms", "rounds")
    return [{k: v for k, v in r.items() if k not in drop} for r in t]


def classify(prop, bad, t=None, line=0):
    """Label of a rejected step (informational, and the key known findings are matched on). The verdict itself is TLC's."""
    ev = bad.get("ev", "?")
    label = "%s_at_%s" % (prop.lower(), ev)
    if prop == "C06" and ev == "assign_begin" and t:
        # Is the quota breach entirely explained by addresses of a failed-after-effect assign that still await unassignment?
        e, fam, n = bad["e"], bad["fam"], bad["n"]
        cap = t[0]["conf"]["cap"]
        cur, pending = set(), set()
        key = "v4" if fam == 4 else "v6"
        for c in t[0].get("cloud", []):
            if c["e"] == e:
                cur |= set(c[key])
        for r in t[1:line - 1]:
            if r.get("e") != e:
                continue
            if r["ev"] == "create_end":
                cur |= set(r[key])
                if r.get("err"):
                    pending |= set(r[key])
            elif r["ev"] == "assign_end" and r["fam"] == fam:
                cur |= set(r["addrs"])
                if r.get("err"):
                    pending |= set(r["addrs"])
            elif r["ev"] == "unassign_begin" and r["fam"] == fam:
                last_un = set(r["addrs"])
            elif r["ev"] == "unassign_end" and r["fam"] == fam and r.get("effect"):
                cur -= last_un
                pending -= last_un
            elif r["ev"] == "remote_remove" and r["fam"] == fam:
                cur.discard(r["a"])
                pending.discard(r["a"])
        if len(cur) + n > cap and len(cur - pending) + n <= cap:
            label = "c06_quota_retry_while_failed_assign_pending"
    return label


def tags(t):
    s = set()
    if any(r["ev"] == "cancel" for r in t): s.add("cancel")
    if any(r.get("plan", "ok") != "ok" for r in t): s.add("fault")
    if any(r["ev"] == "remote_remove" for r in t): s.add("remote_remove")
    if any(r["ev"] == "unassign_begin" for r in t): s.add("dispose")
    if any(r["ev"] == "delete_begin" for r in t): s.add("delete_eni")
    if sum(1 for r in t if r["ev"] == "alloc_ret" and r.get("ok")) >= 2: s.add("multi_alloc")
    opened = 0
    for r in t:
        if r["ev"] == "alloc_call": opened += 1
        if r["ev"] == "alloc_ret": opened -= 1
        if opened >= 2: s.add("overlap")
    return s


def run(ctx, prop, relevant):
    q = ctx.quick
    # the layer below the pool: the real cloud factory (pkg/factory/aliyun) on the real OpenAPI client and metadata reader with
    # only the HTTP transports faked, judged on this property's clauses pushed down to the cloud boundary (specs/Factory.tla,
    # props/factory.py). It runs in its own thread next to the pool stages; its violations are added to ctx like the others.
    fex = concurrent.futures.ThreadPoolExecutor(max_workers=1)
    ffut = fex.submit(factory.stage, ctx, prop) if os.environ.get("VERIF_FACTORY", "1") != "0" else None
    mc = tlc_mc(ctx, "NodePool_mc", "NodePool_mc.cfg" if q else "NodePool_mc_thorough.cfg", timeout=3000, coverage=not q)
    # the dual-stack closure (one interface, both families)
    mc6 = tlc_mc(ctx, "NodePool_mc", "NodePool_mc_dual.cfg" if q else "NodePool_mc_dual_thorough.cfg", timeout=3000)
    # the pool's design at critical-section grain: every interleaving of its goroutines for 2 (quick) / 3 (thorough) requests
    design = tlc_mc(ctx, "PoolDesign", "PoolDesign.cfg" if q else "PoolDesign_thorough.cfg", timeout=3000)
    design_neg = {}
    if not q:
        # non-vacuity of the design invariants: with one repair switched off TLC must find the corresponding defect
        drift = tlc_mc(ctx, "PoolDesign", "PoolDesign_drift.cfg", timeout=3000)      # remote removal + periodic sync + address re-use
        design_neg["drift_states"] = drift.distinct
        for sw in ("Collector", "Pinned", "Keep", "Dangling", "ABA"):
            r = tlc(ctx, "PoolDesign", cfg="PoolDesign_no%s.cfg" % sw, timeout=1200, workers=8)
            design_neg[sw] = r.inv_violated
            if not r.inv_violated:
                raise MachineryError("PoolDesign with Fix%s=FALSE did not violate any invariant (vacuous model?)" % sw)
        # informational (not a listed property): liveness of queued requests under a healthy cloud - TLC finds the stuck
        # waiter (job popped, address taken by a direct request); recorded in the evidence, never part of the verdict
        r = tlc(ctx, "PoolDesign", cfg="PoolDesign_live.cfg", timeout=900, workers=4, allow_fail=True)
        design_neg["liveness_NoStuckWaiter_violated"] = "NoStuckWaiter" in r.out and "violated" in r.out
    scen = tc.simulate(ctx, "NodePool_mc", "NodePool_gen.cfg", num=24 if q else 300, depth=60)
    bins = go_build_tests(ctx, [PKG])
    traces = run_harness(ctx, bins[PKG], 16, {"VERIF_SCEN": scen, "VERIF_RANDOM": "24" if q else "300", "VERIF_DIRECTED": "12" if q else "96"})
    rej = tc.validate_many(ctx, "NodePool_trace", trace_cfg(prop), [strip(t) for t in traces])
    for k, line in rej:
        t = traces[k]
        bad = t[line - 1] if line - 1 < len(t) else {}
        add_violation(ctx, classify(prop, bad, t, line), dict(failing_line=line, event=bad, reset=t[0], trace=t[max(1, line - 400):line + 1]),
                      what="line %d %s" % (line, json.dumps({k: v for k, v in bad.items() if k not in ('seq', 'st', 'cloud')})[:300]))
    # second pass: the pool's INTERNAL state at the end of every critical section (tracing locker) against PoolSlot.tla
    slot_cfg = ("SPECIFICATION TSpec\nCONSTANTS\n  Slots = {1,2,3}\n  Enforce = {\"%s\"}\nCONSTRAINT Inv%s\nCONSTRAINT HighWater\n"
                "INVARIANT NotAccepted\nPOSTCONDITION Report\nCHECK_DEADLOCK FALSE\n" % (prop, prop))
    cs_traces = [[{k: v for k, v in r.items() if k not in ("seq", "scen", "conf", "cloud")} for r in t if r["ev"] in ("reset", "adopt", "cs")] for t in traces]
    ncs = sum(len(t) for t in cs_traces)
    rej2 = tc.validate_many(ctx, "PoolSlot_trace", slot_cfg, cs_traces)
    for k, line in rej2:
        t = cs_traces[k]
        bad = t[line - 1] if line - 1 < len(t) else {}
        prev = [x for x in t[:line - 1] if x.get("slot") == bad.get("slot")][-1:]
        add_violation(ctx, "%s_slot_step" % prop.lower(), dict(failing_line=line, event=bad, previous=prev, reset=traces[k][0]),
                      what="critical section of slot %s: %s -> %s" % (bad.get("slot"), json.dumps(prev)[:200], json.dumps(bad)[:200]))
    tagc = {}
    for t in traces:
        for g in tags(t):
            tagc[g] = tagc.get(g, 0) + 1
    nt = len({h(strip(t)) for t in traces if tags(t) & relevant})
    cov = dict(states=mc.distinct + mc6.distinct + design.distinct, transitions=mc.generated + mc6.generated + design.generated, design_model_states=design.distinct,
               design_defect_reproduction=design_neg, traces_validated_against_impl=len(traces), evaluations=len(traces),
               distinct_nontrivial=nt, events=sum(len(t) for t in traces), critical_section_projections=ncs, trace_tags=tagc,
               rule="scenarios = TLC simulation of NodePool_mc.tla projected on the driver alphabet (alloc/release/cancel/balancer/"
                    "sync/remote removal/fault plan) + seeded random scenarios over 2-3 slots, cap 2-3, batch 1-3, min/max idle, "
                    "optional trunk and dual stack; every scenario ends with a drain and a quiescent observation; non-trivial = "
                    "trace carries one of the tags %s; distinct by trace hash" % sorted(relevant),
               samples=[strip(traces[0])[:14]], coverage_zero_actions=mc.coverage_zero, exhaustive=False)
    extra = []
    if ffut is not None:
        try:
            fc = ffut.result()
        except MachineryError as e:
            # a dead factory-layer harness is exit 2 - unless the pool stages already hold violations judged by TLC on real
            # executions: those stand on their own (a changed product may well crash one harness and break the property in another)
            if not ctx.violations:
                raise
            ctx.notes.append("factory layer not judged (machinery error): %s" % str(e)[:300])
            fc = None
        if fc is not None:
            cov["factory_layer"] = {k: v for k, v in fc.items() if k not in ("samples",)}
            cov["traces_validated_against_impl"] = len(traces) + fc["traces"]
            cov["states"] += fc["states"]
            cov["transitions"] += fc["transitions"]
            extra = ["factory layer: " + a for a in factory.ASSUMPTIONS]
    return finish(ctx, "model_checking", cov, extra + [
        "the pool stages run on a fake factory.Factory whose state mirrors NodePool.tla's cloud variable; quotas are not enforced by the fake, only judged",
        "error-after-effect results carry the created object (the contract of pkg/factory/aliyun, itself checked by the factory layer)",
        "'held' is what Manager.Allocate returned to the caller and not yet passed to Manager.Release",
        "a hand-out is valid if the address was live at some instant between the call and its return",
        "the pool's 300 ms factory sleep is paid; rate limiters are replaced by fast ones as in the repository's own tests; inhibit timers are cleared by the driver"])
