import podeni


def run(ctx):
    return podeni.run(ctx, "C10", {"record_removed", "recreate", "rollback", "interleave", "cloud_fault", "api_fault", "move", "d10", "conflict"})
