import daemon


def run(ctx):
    return daemon.run(ctx, "C09", "c09", {"gc", "pod_vanished", "gc_while_request_inside", "rpc_during_gc", "api_failure", "sticky", "detach", "gc_cleanup_fault", "real_k8s_client"}, [
        "gcPods is called directly (the 5-minute timer is not waited for); GC runs in non-CRD mode (cleanRuntimeNode is out of scope here)",
        "a quarter of the random scenarios answer GetPod / GetLocalPods / PodExist with the REAL pkg/k8s code (struct built by an overlay shim, "
        "in-memory pod cache) against an httptest API server with two views: consistent reads from the store, resourceVersion=0 reads from a "
        "watch cache that has not yet seen pods marked lag; an absence answered from the watch cache is not a confirmation by the API server",
        "transient cleanup fault: one GC pass runs with RLIMIT_NOFILE (soft) at 0, so every netlink call of the rule cleanup fails; the pass is "
        "logged as disturbed and is not counted towards 'within two passes'; healthy passes follow",
        "'a pod whose cleanup cannot proceed' has no legitimate instance in this harness: a record whose interface has no device must be tolerated "
        "(daemon_linux.go gcPolicyRoutes is meant to), so every vanished pod is owed collection within two undisturbed passes"])
