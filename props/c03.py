import ipam


def run(ctx):
    return ipam.run(ctx, "C03", {"release", "forced_delete", "teardown_reported", "report_lost", "trim", "eni_delete", "agent_gc", "resandbox"})
