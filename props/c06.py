import nodepool


def run(ctx):
    return nodepool.run(ctx, "C06", {"dispose", "delete_eni", "fault"})
