from vlib import *
import funcspec


def _marked(m):
    o = m.get("out") or {}
    return bool(o.get("allowed")) and bool(o.get("podEni")) and not o.get("unchanged")


def run(ctx):
    return funcspec.check(
        ctx, "Webhook",
        entries=[("pkg/controller/webhook", "TestVerifWebhook", False)],
        rule="TLC enumerates DomSeq of specs/Webhook.tla completely (admission situations = pod x PodNetworking objects x "
             "namespace labels x control-plane configuration); the real MutatingHook/podWebhook answers every case against a "
             "controller-runtime fake client; the returned JSON patch is applied to the input pod and TLC evaluates the "
             "property relation Bad on the pod that leaves admission. A case is non-trivial when the webhook admitted the "
             "pod, changed it and marked it for a dedicated ENI",
        nontrivial=_marked,
        domain_note="family E: hostNetwork x ignore label x 0..2 containers x every subset of the three network annotations x "
                    "cluster with/without a selecting PodNetworking x IPAM type x resource injection; family N: inline network "
                    "lists with interface names of length 0,1,4,5,6, duplicates, 0/1/10/11 security groups, vSwitches present or "
                    "not, allocation type absent/Elastic/Fixed, 1-3 entries, malformed JSON, empty list, eni-config present/absent; "
                    "family R: pod-networks-request naming 1-3 of 8 selector-less definitions (zones with intersections {z2}, "
                    "{z1,z2}, {}; fixed; not ready; with selector; dedicated ENI; 11 security groups; missing) x owner kind x "
                    "pre-existing node affinity (0/1/2 terms) x trunk x injection x previous PodENI zone; family S: one or two "
                    "PodNetworkings with pod/namespace selectors matching or not, Ready or not, Elastic or Fixed x pod labels x "
                    "namespace labels x owner kind x IPAM type x pre-set pod-eni mark",
        assumptions=["exhaustive within the stated finite domain only",
                     "the eni-config ConfigMap is valid and carries vSwitches and security groups (or is absent)",
                     "API server, namespace and PodNetworking objects are served by the controller-runtime fake client",
                     "lenient readings R1-R9 listed at the top of specs/Webhook.tla (e.g. zero security groups accepted, no zone "
                     "affinity demanded for DaemonSet pods or when the common zone set is empty/unknown)",
                     "PodNetworking admission (validate.go) is not judged: the property text only constrains pod admission"])
