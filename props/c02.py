import ipam


def run(ctx):
    return ipam.run(ctx, "C02", {"bind", "takeover", "dual", "rdma", "drift", "restart", "release"})
