import ipam


def run(ctx):
    return ipam.run(ctx, "C08", {"fault", "write_fail", "eni_create", "eni_delete", "trim"})
