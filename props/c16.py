from vlib import *
import tracecheck as tc

PKG = "pkg/aliyun/client"


def trace_cfg(ntok, calls=3, cap=2):
    return ("SPECIFICATION TSpec\nCONSTANTS\n  Calls = {%s}\n  Cap = %d\n  Tok = {%s}\n  Params = {%s}\n"
            "CONSTRAINT PropInv\nCONSTRAINT HighWater\nINVARIANT NotAccepted\nPOSTCONDITION Report\nCHECK_DEADLOCK FALSE\n" % (
                ",".join(str(i) for i in range(1, calls + 1)), cap, ",".join(str(i) for i in range(1, max(ntok, 1) + 1)),
                ",".join(str(i) for i in range(1, 22))))


def renumber(trace):
    ids = {}
    out = []
    for r in trace:
        r = dict(r)
        r.pop("seq", None)
        if r["ev"] == "request":
            r["t"] = ids.setdefault(r.pop("tok"), len(ids) + 1)
            r.pop("action", None)
        out.append(r)
    return out, len(ids)


def apalache_inductive(ctx, module):
    import shutil, subprocess
    d = ctx.sub("apalache")
    shutil.copy(os.path.join(SPECS, module + ".tla"), d)
    out = {}
    for name, args in (("base", ["--init=Init", "--length=0"]), ("step", ["--init=IndInit", "--length=1"])):
        r = subprocess.run(["timeout", "900", "apalache-mc", "check", "--cinit=CInit", "--inv=IndInv"] + args + [module + ".tla"],
                           cwd=d, stdout=subprocess.PIPE, stderr=subprocess.STDOUT, text=True)
        ok = r.returncode == 0 and "EXITCODE: OK" in r.stdout
        out[name] = ok
        if not ok:
            raise MachineryError("Apalache %s/%s did not pass (rc=%s):\n%s" % (module, name, r.returncode, r.stdout[-2000:]))
    return out


def run(ctx):
    q = ctx.quick
    # 1. the specification itself: exhaustive for small constants
    mc = tlc_mc(ctx, "Token", "Token_mc.cfg" if q else "Token_mc_thorough.cfg", timeout=1800, coverage=not q)
    # 1b. unbounded in the number of steps: Apalache checks that TokenCore.tla's IndInv is inductive
    #     (Init => IndInv at length 0; IndInv /\ Next => IndInv' at length 1) for 3 callers, 3 parameter keys, 6 tokens
    ind = apalache_inductive(ctx, "TokenCore")
    # 2. scenarios from the specification (TLC simulation) + seeded random ones from the harness
    params = os.path.join(ctx.scratch, "params.ndjson")
    scen = tc.simulate(ctx, "Token_gen", "Token_gen.cfg", num=40 if q else 600, depth=80, env={"VERIF_PARAMS": params})
    bins = go_build_tests(ctx, [PKG])
    traces = []
    for test, env in (("TestVerifToken", {"VERIF_SCEN": scen, "VERIF_RANDOM": "30" if q else "400"}),
                      ("TestVerifTokenFree", {"VERIF_ROUNDS": "30" if q else "300"})):
        tf = os.path.join(ctx.scratch, test + ".trace.ndjson")
        e = {"VERIF_PARAMS": params, "VERIF_TRACE": tf, "VERIF_CAP": "2", "VERIF_CALLS": "3"}
        e.update(env)
        rc, out = run_test_bin(ctx, bins[PKG], test, env=e, timeout=1200)
        if rc != 0 or not os.path.exists(tf):
            raise MachineryError("harness %s failed rc=%s\n%s" % (test, rc, out[-3000:]))
        rows = read_ndjson(tf)
        rows.sort(key=lambda r: r["seq"])
        for t in tc.split_traces(rows):
            t[0]["src"] = test
            traces.append(t)
    # 3. TLC decides whether every recorded execution is a behaviour of Token.tla
    ren = [renumber(t) for t in traces]
    ntok = max(n for _, n in ren)
    rejected = tc.validate_many(ctx, "Token_trace", trace_cfg(ntok), [t for t, _ in ren])
    for k, line in rejected:
        t = ren[k][0]
        bad = t[line - 1] if line - 1 < len(t) else {}
        add_violation(ctx, "retry_token_not_reused" if bad.get("ev") == "request" else "trace_rejected",
                      dict(source=traces[k][0].get("src"), failing_line=line, event=bad, trace=traces[k][:line + 2]),
                      what="line %d %s" % (line, json.dumps(bad)))
    ptab = read_ndjson(params)
    def nontrivial(t):   # a failed attempt followed by another attempt with the same parameters
        failed = set()
        par = {}
        for r in t:
            if r["ev"] == "invoke":
                par[r["c"]] = r["p"]
                if r["p"] in failed:
                    return True
            if r["ev"] == "respond" and r["o"] == "fail":
                failed.add(par.get(r["c"]))
        return False
    nt = len({h(t) for t, _ in ren if nontrivial(t)})
    cov = dict(states=mc.distinct, transitions=mc.generated, traces_validated_against_impl=len(traces),
               evaluations=len(traces), distinct_nontrivial=nt,
               rule="scenarios = TLC simulation of Token_gen.tla (controllable steps invoke/respond/return over 2-3 parameter "
                    "sets per scenario) + seeded random scenarios + free-running concurrent callers; non-trivial = a failed "
                    "attempt is followed by an attempt with the same parameters; distinct by hash of the renumbered trace",
               samples=[ren[0][0][:12], ren[-1][0][:12]], events=sum(len(t) for t in traces),
               coverage_zero_actions=mc.coverage_zero, param_rows=len(ptab), exhaustive=False,
               inductive_invariant=dict(tool="apalache-mc 0.58", module="TokenCore.tla", invariant="IndInv", base_case=ind["base"], inductive_step=ind["step"],
                                        parameters="Calls=1..3, Keys=1..3, Tok=1..6, Cap=2"))
    return finish(ctx, "model_checking", cov, [
        "the cloud endpoint is a fake http.RoundTripper inside the real SDK clients; only the ClientToken it receives is judged",
        "token choice is an unobservable step between invocation and request arrival (silent Pick in the trace spec)",
        "LRU capacity is set to 2 (IDEMPOTENT_KEY_CACHE_SIZE) and eviction is modelled policy-free",
        "backoff Steps=1 (the default of every caller in the repository): one request per call"])
