"""Shared runner for C10 / C11 (specs/PodEni.tla, harness pkg/controller/pod-eni TestVerifPodEni).

Pipeline: exhaustive TLC run of the bounded closure (PodEni_mc) -> scenarios by TLC simulation of the same module
-> the REAL pod controller, PodENI controller, collectors and daemon-side record check replay them (plus enumerated
and seeded random scenarios built by the harness) on one fake API server and one fake cloud -> every recorded
trace is validated by TLC against PodEni.tla with Enforce = {<property>}.

D10 (DESIGN.md section 6): the pod controller re-enters Detaching from Initial / Unbind / Binding for a fixed-IP
record whose pod vanished.  By default those three edges are tolerated (Lenient = TRUE, reading R3 in PodEni.tla)
and counted in the evidence; VERIF_C10_STRICT=1 turns them into violations of C10.
"""
import os, json
from vlib import *
import tracecheck as tc

PKG = "pkg/controller/pod-eni"
DROP = ("seq", "scen", "src", "live", "requeue", "why")
D10 = {("Unbind", "Detaching"), ("Initial", "Detaching"), ("Binding", "Detaching")}
STUCK = "initial_record_of_vanished_pod_attached_elsewhere"


def strict():
    return os.environ.get("VERIF_C10_STRICT", "") not in ("", "0")


def trace_cfg(prop, max_eni):
    return ("SPECIFICATION TSpec\nCONSTANTS\n  Names = {1,2,3}\n  Enis = {%s}\n  Calls = {1,2,3,4,5,6,7,8}\n  Enforce = {\"%s\"}\n"
            "  Lenient = %s\n  Grace = 600000\n  Slack = 1000\n"
            "CONSTRAINT Inv%s\nCONSTRAINT HighWater\nINVARIANT NotAccepted\nPOSTCONDITION Report\nCHECK_DEADLOCK FALSE\n" % (
                ",".join(str(i) for i in range(1, max_eni + 1)), prop, "FALSE" if strict() else "TRUE", prop))


def strip(t):
    return [{k: v for k, v in r.items() if k not in DROP} for r in t]


def run_harness(ctx, binary, env):
    tf = os.path.join(ctx.scratch, "podeni.trace.ndjson")
    e = dict(env)
    e["VERIF_TRACE"] = tf
    rc, out = run_test_bin(ctx, binary, "TestVerifPodEni", env=e, timeout=900)
    if rc != 0 or not os.path.exists(tf):
        raise MachineryError("PodEni harness failed rc=%s\n%s" % (rc, out[-3000:]))
    rows = read_ndjson(tf)
    rows.sort(key=lambda r: r["seq"])
    return tc.split_traces(rows)


def eff(post):
    if not post["ex"]:
        return "Removed"
    if post["del"] or post["phase"] == "Deleting":
        return "Deleting"
    return post["phase"] or "Initial"


def tags(t):
    """Property-relevant features of a trace (measured, for vacuity control)."""
    s = set()
    ph, uids, nodes = {}, {}, {}
    for r in t[0].get("recs", []):
        ph[r["n"]] = eff(r)
    if t[0].get("enis"):
        s.add("population")
    for r in t:
        ev = r["ev"]
        if ev == "call" and r["c"] >= 2:
            s.add("interleave")
        elif ev == "pod" and r["op"] == "create":
            uids.setdefault(r["n"], set()).add(r["uid"])
            nodes.setdefault(r["n"], set()).add(r["node"])
            if len(uids[r["n"]]) > 1:
                s.add("recreate")
            if len(nodes[r["n"]]) > 1:
                s.add("move")
        elif ev == "pe_fail":
            s.add("conflict" if r.get("why") == "conflict" else "api_fault")
        elif ev == "cloud":
            if not r["ok"]:
                s.add("cloud_fault")
                if r["op"] == "create":
                    s.add("rollback")
            if r["who"] == "gcl" and r["op"] in ("detach", "delete"):
                s.add("leak_reap")
            if r["who"] == "pc" and r["op"] == "delete":
                s.add("rollback")
        elif ev == "pe_write":
            n, post = r["n"], r["post"]
            a, b = ph.get(n, "Removed"), eff(post)
            if (a, b) in D10:
                s.add("d10")
            if a != b:
                s.add("edge:%s>%s" % (a, b))
            if b == "Removed":
                s.add("record_removed")
            fixed = any(x["fixed"] for x in post["allocs"])
            if r["who"] == "gcr" and b == "Deleting" and a != "Deleting":
                s.add("ttl_reap" if fixed else "gc_reap")
            if a == "Binding" and b == "Bind":
                s.add("rebind")
            if r["op"] == "status_patch":
                s.add("seen_refresh")
            ph[n] = b
        elif ev == "daemon" and r["ok"]:
            s.add("daemon_ok")
        elif ev == "elapse":
            s.add("elapse")
    return s


def signature(t, line):
    """Names the shape of a rejected history (used to match entries of known_findings.json)."""
    bad = t[line - 1] if line - 1 < len(t) else {}
    if bad.get("ev") != "quiescent":
        return "%s%s" % (bad.get("ev", "?"), ("_" + bad["op"]) if "op" in bad else "")
    pods, recs, enis = {}, {}, {}
    for p in t[0]["pods"]:
        pods[p["n"]] = dict(p)
    for r in t[0]["recs"]:
        recs[r["n"]] = r
    for e in t[0]["enis"]:
        enis[e["e"]] = e["inst"] if e["st"] == "InUse" else 0
    for r in t[:line]:
        ev = r["ev"]
        if ev == "pod":
            if r["op"] == "create":
                pods[r["n"]] = dict(ex=True, uid=r["uid"], node=r["node"], run=True)
            elif r["op"] == "exit":
                pods[r["n"]]["run"] = False
            elif r["op"] == "gone":
                pods[r["n"]]["ex"] = False
        elif ev == "pe_write":
            recs[r["n"]] = r["post"]
        elif ev == "cloud" and r["effect"]:
            if r["op"] == "attach":
                enis[r["e"]] = r["inst"]
            elif r["op"] in ("detach", "delete", "create"):
                enis[r["e"]] = 0
    for n, rec in recs.items():
        p = pods.get(n)
        if rec["ex"] and not rec["del"] and rec["phase"] == "" and p and p["ex"] and p.get("run", True) and p["uid"] != rec["uid"] \
                and any(enis.get(a["e"], 0) not in (0, p["node"]) for a in rec["allocs"]):
            return STUCK
    return "quiescent"


def run(ctx, prop, relevant):
    q = ctx.quick
    if ctx.replay:
        return replay(ctx, prop)
    # thorough: C10 -> nesting depth 2, all allocation kinds; C11 -> stray cloud interfaces, two nodes, depth 1
    mc = tlc_mc(ctx, "PodEni_mc", "PodEni_mc.cfg" if q else ("PodEni_mc_thorough.cfg" if prop == "C10" else "PodEni_mc_thorough2.cfg"),
                timeout=1500, coverage=not q)
    scen = tc.simulate(ctx, "PodEni_mc", "PodEni_gen.cfg", num=60 if q else 1200, depth=300, timeout=900)
    bins = go_build_tests(ctx, [PKG])
    traces = run_harness(ctx, bins[PKG], {"VERIF_SCEN": scen, "VERIF_RANDOM": "120" if q else "4000", "VERIF_ENUM": "all"})
    if not traces:
        raise MachineryError("the harness recorded no trace")
    max_eni = 4
    for t in traces:
        for r in t:
            if r["ev"] == "cloud":
                max_eni = max(max_eni, r["e"])
            elif r["ev"] == "reset":
                for x in r["enis"]:
                    max_eni = max(max_eni, x["e"])
    rej = tc.validate_many(ctx, "PodEni_trace", trace_cfg(prop, max_eni), [strip(t) for t in traces], max_reruns=40, chunk=150, timeout=1500)
    for k, line in rej:
        t = traces[k]
        bad = t[line - 1] if line - 1 < len(t) else {}
        label = "%s_at_%s%s" % (prop.lower(), bad.get("ev", "?"), ("_" + bad["op"]) if "op" in bad else "")
        if signature(t, line) == STUCK:      # D18 (known_findings.json): only this exact history shape gets this clause label
            label = "%s_stuck_initial_record_attached_elsewhere" % prop.lower()
        add_violation(ctx, label, dict(failing_line=line, event=bad, source=t[0].get("src"), signature=signature(t, line), reset=t[0], trace=strip(t[:line])),
                      what="line %d of a %s scenario: %s" % (line, t[0].get("src"), json.dumps({k: v for k, v in bad.items() if k not in ("seq",)})[:400]))
    tagc, srcs = {}, {}
    for t in traces:
        srcs[t[0].get("src", "?")] = srcs.get(t[0].get("src", "?"), 0) + 1
        for g in tags(t):
            tagc[g] = tagc.get(g, 0) + 1
    nt = len({h(strip(t)) for t in traces if tags(t) & relevant})
    if tagc.get("d10"):
        ctx.notes.append("D10 reproduced in %d traces (pod controller sets Detaching from Initial/Unbind/Binding); %s" % (
            tagc["d10"], "STRICT: counted as violation" if strict() else "tolerated (Lenient, reading R3); VERIF_C10_STRICT=1 makes it a violation"))
    cov = dict(states=mc.distinct, transitions=mc.generated, traces_validated_against_impl=len(traces), evaluations=len(traces),
               distinct_nontrivial=nt, events=sum(len(t) for t in traces), trace_tags=tagc, scenario_sources=srcs,
               rule="scenarios = TLC simulation of PodEni_mc.tla (pods x controller invocations nested at their API/cloud calls x faults x "
                    "virtual time) + enumerated families (phase-machine edges with fault placements and interleavings; release-strategy "
                    "mixes x podLastSeen at TTL -/+ 3 s x phase; cloud interface populations {6 tag classes} x {grace -/+ 3 s} x "
                    "{referenced, not} x {Available, InUse} x {Secondary, Member}) + seeded random walks; every scenario ends with a drain "
                    "and a quiescent observation; non-trivial = trace carries one of %s; distinct by trace hash" % sorted(relevant),
               samples=[strip(traces[0])[:16]], coverage_zero_actions=mc.coverage_zero, exhaustive=False, lenient_d10=not strict())
    return finish(ctx, "model_checking", cov, [
        "API server = controller-runtime fake client; resourceVersion conflicts as implemented there, plus: an update carrying the UID of a deleted "
        "incarnation conflicts (a real API server never reuses resourceVersions); informer caches are not modelled (reads are fresh)",
        "cloud = table of interfaces; attach/detach/delete take effect atomically; delete of a missing interface succeeds; attach of an interface "
        "already attached to the same instance succeeds; faults are 'error before effect' or 'error after effect'; none in roll-back deletes (R8)",
        "one reconcile per object key at a time (work-queue guarantee); different functions interleave at their API/cloud calls (nesting depth <= 3)",
        "time is virtual: 'elapse' moves stored time stamps into the past; boundaries are placed 3 s before/after TTL and grace period",
        "readings R1-R8 in specs/PodEni.tla (deletionTimestamp counts as deleting; D10 edges tolerated unless VERIF_C10_STRICT=1; observation = Bind "
        "by the PodENI controller or a running pod found by its collector; 1 s slack for second-granular podLastSeen; unparsable TTLs unconstrained)"])


def replay(ctx, prop):
    p = ctx.replay
    f = os.path.join(p, "violation.json") if os.path.isdir(p) else p
    with open(f) as fh:
        v = json.load(fh)
    t = v["case"]["trace"]
    max_eni = 4
    for r in t:
        if r["ev"] == "cloud":
            max_eni = max(max_eni, r["e"])
        elif r["ev"] == "reset":
            for x in r["enis"]:
                max_eni = max(max_eni, x["e"])
    rej = tc.validate_many(ctx, "PodEni_trace", trace_cfg(prop, max_eni), [strip(t)])
    for k, line in rej:
        bad = t[line - 1] if line - 1 < len(t) else {}
        add_violation(ctx, v.get("clause", "replay"), dict(failing_line=line, event=bad, trace=t), what="replayed trace rejected at line %d" % line)
    return finish(ctx, "model_checking", dict(traces_validated_against_impl=1, evaluations=1, distinct_nontrivial=1, rule="replay of a recorded trace",
                                              samples=[], exhaustive=False), ["replay re-validates the recorded trace; it does not re-drive the code"])
