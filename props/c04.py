import daemon


def run(ctx):
    return daemon.run(ctx, "C04", "c04", {"same_pod_overlap", "processing", "cancel", "failed_add", "gc_while_request_inside"}, [
        "'in flight' is judged at the handler: a request is inside from its pod lookup (after it took the pending entry and the service "
        "lock) until a step that is only possible after it left; a 'processing' reply is legitimate only while another request of the pod is open",
        "failing ADDs are produced by cancellation (at every touch of the request context, and after microseconds) and by an exhausted pool; "
        "database write failures are outside the property's quantifier and are not injected"])
