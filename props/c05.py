import daemon


def run(ctx):
    return daemon.run(ctx, "C05", "c05", {"crash", "crash_inside_request", "probe", "sigkill", "detach", "db_write_fault", "dual_stack"}, [
        "crash points: after the pod lookup, before/after every cloud call of the pool, before/after every Put/Delete; at each of them a probe "
        "restarts a second daemon from copies and asks for an address for every pod; armed crash points and kills additionally continue the history",
        "a crash in the middle of a bolt write is sampled by SIGKILL of a child process streaming Put/Delete through the real storage, not enumerated",
        "database write faults: the bolt Put/Delete of a request fails before any effect (injected in the recording store wrapper); a request whose "
        "write failed must not be acknowledged; the address such an ADD leaves with the pool until the retry or the restart is not judged",
        "C05 scenarios contain no cancelled requests (the property quantifies over crash points, not over cancellation)"])
