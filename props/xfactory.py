"""./check XFACTORY [--tier thorough] [--seed N]: the Factory family on its own (all clause groups), for development and for
the binding self-test (mutants/XFACTORY). The listed properties C01 / C06 / C07 call factory.stage(ctx, pid) themselves."""
import concurrent.futures
from vlib import *
import factory


def run(ctx):
    factory.prepare(ctx)
    with concurrent.futures.ThreadPoolExecutor(max_workers=4) as ex:
        res = list(ex.map(lambda pid: factory.stage(ctx, pid), factory.PIDS))
    cov = {}
    for pid, c in zip(factory.PIDS, res):
        cov["rejected_" + pid] = c.pop("rejected")
        cov.update(c)
    return finish(ctx, "model_checking", cov, factory.ASSUMPTIONS)
