from vlib import *
import funcspec


def run(ctx):
    return funcspec.check(
        ctx, "Capacity",
        entries=[("daemon", "TestVerifCapacityDaemon", False), ("daemon", "TestVerifCapacityRestart", False), ("pkg/controller/node", "TestVerifCapacityNode", False)],
        rule="TLC enumerates DomSeq of specs/Capacity.tla completely: (instance-type description, configuration) pairs for the "
             "daemon start-up chain (annotation -> getInstanceType -> checkInstance -> getPoolConfig) and for the control-plane "
             "chain (DescribeInstanceTypes -> ReconcileNode -> daemon nodeReconcile -> ReconcileNode k8sAnno/patchNodeRes on a "
             "fake API server); a case is non-trivial when the configuration was accepted, i.e. something was advertised",
        nontrivial=lambda m: not m["out"].get("rejected", False),
        domain_note="feature family (both chains): EniQuantity q in {1,2,3,8} (thorough {1,2,3,4,7,8,10}) x EniTotalQuantity in "
                    "{0, q, q+6} (thorough also q+1) x IPv4 per interface 6 (thorough {1,6}) x IPv6 per interface in "
                    "{0, v4-1, v4, v4+1} x EniTrunkSupported x EriQuantity {0,1,3} (thorough 0..3), each with every "
                    "combination of ip_stack {ipv4,dual,ipv6} x enable_eni_trunking x enable_erdma (x exclusive-ENI label "
                    "for the control-plane chain); sizing family (daemon chain): q in {1,2,3,4,8,10} (thorough 1..10) x IPv4 "
                    "per interface {1,6,20} (thorough {1,2,6,10,20}) x EriQuantity {0,3} with every combination of max_eni "
                    "{0,2,100} (thorough {0,1,3,100}) x min_eni {0,1,100} x max_pool_size x min_pool_size {0,5,1000} "
                    "(thorough {0,5,50,1000}), plus ipam_type crd with three pool settings. Restricted to non-negative "
                    "configured sizes, >= 1 adapter (every instance has a primary interface), >= 1 IPv4 address per "
                    "interface, and the default eni_cap_ratio / eni_cap_shift (the statement is conditioned on the "
                    "default ratio). quick: 13 600 cases, thorough: 76 820 cases.",
        assumptions=["exhaustive within the stated finite domain only",
                     "the operating-system RDMA capability is present (nodecap erdma=true), so only the instance type decides",
                     "a trunk interface is reported attached and in use in the Node CR status (IPAM controller's part), so "
                     "that the member-ENI resource is published whenever the code under test enables trunking",
                     "watermarks are judged on the daemon's computed PoolConfig; Node.Spec.Pool of the Node CR is raw "
                     "configuration passed to the IPAM controller and is not judged (reading R8 in the spec)",
                     "daemon/builder.go setupENIManager is executed by the 'restart' cases only (ENIMultiIP, ipv4, no trunk / RDMA, k interfaces "
                     "already attached; fake metadata service); the kubelet device-plugin counts are not executed"])
