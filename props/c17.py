from vlib import *
import tracecheck as tc

PKG = "pkg/vswitch"
IDS = '{"v1", "v2", "v3", "v4"}'


def cfg(spec_extra=""):
    return ("SPECIFICATION TSpec\nCONSTANTS\n  Ids = %s\n  Zones = {\"a\", \"b\"}\n  FreeVals = {0, 1, 5}\n  TTL = 2\n  MaxT = 1000\n"
            "  IdSeqs = {}\n  DriftOn = TRUE\n  CloudInit = {}\n  Policies = {\"ordered\", \"random\", \"most\", \"\"}\n%s"
            "CONSTRAINT PropInv\nCONSTRAINT HighWater\nINVARIANT NotAccepted\nPOSTCONDITION Report\nCHECK_DEADLOCK FALSE\n" % (IDS, spec_extra))


def strip(t):
    return [{k: v for k, v in r.items() if k not in ("seq", "src", "sharedslice")} for r in t]


def run(ctx):
    q = ctx.quick
    mc = tlc_mc(ctx, "VSwitch_mc", "VSwitch_mc_quick.cfg" if q else "VSwitch_mc.cfg", timeout=3000, coverage=not q)
    scen = tc.simulate(ctx, "VSwitch_gen", "VSwitch_gen.cfg", num=40 if q else 500, depth=40)
    bins = go_build_tests(ctx, [PKG])
    out = {}
    for test, env in (("TestVerifVSwitchSeq", {"VERIF_SCEN": scen, "VERIF_RANDOM": "40" if q else "600"}),
                      ("TestVerifVSwitchConc", {"VERIF_ROUNDS": "300" if q else "1500", "VERIF_CALLERS": "3"})):
        tf = os.path.join(ctx.scratch, test + ".trace.ndjson")
        e = {"VERIF_TRACE": tf}
        e.update(env)
        rc, o = run_test_bin(ctx, bins[PKG], test, env=e, timeout=1200)
        if rc != 0 or not os.path.exists(tf):
            raise MachineryError("harness %s failed rc=%s\n%s" % (test, rc, o[-3000:]))
        rows = read_ndjson(tf)
        rows.sort(key=lambda r: r["seq"])
        out[test] = tc.split_traces(rows)
    seq, conc = out["TestVerifVSwitchSeq"], out["TestVerifVSwitchConc"]
    # Init of the trace specs needs CloudInit non-empty: the first reset line sets the real cloud
    init_cloud = "  CloudInit <- TCloudInit\n"
    for name, module, traces, extra in (("sequential", "VSwitch_trace", seq, ""), ("concurrent", "VSwitch_conc", conc, "  Callers = {1, 2, 3}\n")):
        c = cfg(extra).replace("  CloudInit = {}\n", "  CloudInit <- TCloudInit\n")
        rej = tc.validate_many(ctx, module, c, [strip(t) for t in traces])
        for k, line in rej:
            t = traces[k]
            bad = t[line - 1] if line - 1 < len(t) else {}
            clause = "selection_not_allowed"
            if bad.get("res") == "panic":
                clause = "panic"
            elif "after" in bad and bad.get("after") != bad.get("ids", bad.get("after")) and bad.get("ev") == "getone":
                clause = "caller_slice_modified"
            elif bad.get("op") == "shared":
                clause = "caller_slice_modified"
            add_violation(ctx, clause, dict(mode=name, failing_line=line, event=bad, trace=t[max(0, line - 60):line + 1], reset=t[0]),
                          what="%s line %d %s" % (name, line, json.dumps({k: v for k, v in bad.items() if k != 'seq'})))
    def nontrivial(t):
        return any(r.get("ev") in ("block", "tick") or r.get("op") == "block" for r in t) and \
               any(r.get("res") not in (None, "none", "") for r in t)
    nt = len({h(strip(t)) for t in seq + conc if nontrivial(t)})
    cov = dict(states=mc.distinct, transitions=mc.generated, traces_validated_against_impl=len(seq) + len(conc),
               evaluations=len(seq) + len(conc), distinct_nontrivial=nt,
               rule="sequential scenarios = TLC simulation of VSwitch_gen.tla + seeded random ones (getone/block/tick/cloud drift) "
                    "on a real SwitchPool with a fake clock; concurrent rounds = 3 goroutines x 3 calls on a real SwitchPool (cold rounds with a slow "
                    "cloud so that callers join lookups in flight), judged by TLC on what each call can have seen (VSwitch_conc.tla); non-trivial = contains a Block or clock tick and at least one successful selection",
               samples=[strip(seq[0])[:6], strip(conc[0])[:8]], getone_calls=sum(1 for t in seq for r in t if r.get("ev") == "getone"),
               concurrent_rounds=len(conc), coverage_zero_actions=mc.coverage_zero, exhaustive=False)
    return finish(ctx, "model_checking", cov, [
        "the VPC API is a fake; the LRU-expire cache of the sequential runs uses a fake clock (1 tick = TTL/2)",
        "concurrent rounds: static cloud, TTL 1h, lookups take 3 ms in cold rounds; Block is atomic, GetOne is not (the property does not ask for it): "
        "a selection must be explainable by one value per look at a candidate among the values its cache entry had while the call was in progress",
        "'has free addresses' is judged on the selector's cached snapshot (that is what the property's cache-expiry clause implies)",
        "data-race freedom as such is not decided (only observable effects: result, caller slice, panic)"])
