"""Family 'Factory' (specs/Factory.tla, harness pkg/factory/aliyun TestVerifFactory): the real cloud factory on the real
OpenAPI client and the real metadata reader, only the HTTP transports faked.

stage(ctx, pid) with pid in {"C01", "C06", "C07", "F"}: MC of the bounded closure + scenario generation (TLC simulation,
directed scenarios, seeded random scenarios) + harness + trace validation with Enforce = {pid}; violations are added to
ctx, a coverage dict is returned; finish() is left to the caller (props/xfactory.py, or the check of the listed property).
The expensive part (MC, scenarios, build, harness run) happens once per ctx and is shared by the stages.
"""
import concurrent.futures, random, shutil
from vlib import *
import tracecheck as tc

PKG = "pkg/factory/aliyun"
PIDS = ("C01", "C06", "C07", "F")

CREATE_OUT = ["lost", "ea", "eb:InvalidVSwitchId.IpNotEnough", "eb:QuotaExceeded.PrivateIpAddress", "eb:Throttling", "eb:InternalError",
              "eb:Forbidden.RAM", "eb:SecurityGroupInstanceLimitExceed"]
ATTACH_OUT = ["lost", "ea", "eb:EniPerInstanceLimitExceeded", "eb:Throttling", "eb:InvalidOperation.InvalidEcsState"]
DESCRIBE_OUT = ["eb:Throttling", "eb:InternalError", "lost", "eb:Forbidden.RAM"]
ASSIGN_OUT = ["lost", "ea", "partial:1", "partial:0", "eb:InvalidVSwitchId.IpNotEnough", "eb:Throttling", "eb:Operation.Conflict",
              "eb:InvalidOperation.Ipv4CountExceeded", "eb:InternalError"]
UNASSIGN_OUT = ["lost", "ea", "eb:Throttling", "eb:Forbidden.RAM", "eb:InternalError"]
DETACH_OUT = ["lost", "eb:Throttling", "eb:InvalidOperation.Conflict", "eb:InternalError"]
DELETE_OUT = ["lost", "eb:Throttling", "eb:InvalidOperation.InvalidEniState", "eb:InternalError"]
LAGS = [0, 0, 0, 1, 2, "never"]


def trace_cfg(pid):
    return ("SPECIFICATION TSpec\nCONSTANTS\n  Slots = {1,2}\n  Enis = {1,2,3,4,5,6,7,8,9}\n  Enforce = {\"%s\"}\n"
            "CONSTRAINT Inv%s\nCONSTRAINT HighWater\nINVARIANT NotAccepted\nPOSTCONDITION Report\nCHECK_DEADLOCK FALSE\n" % (pid, pid))


def conf(v6=False, policy="random", tagf=False, trunk=False, erdma=False, slots=1, pre=(), vsws=((1, 30), (2, 30))):
    return {"a": "conf", "conf": dict(v6=v6, policy=policy, tagf=tagf, trunk=trunk, erdma=erdma, slots=slots, pre=list(pre),
                                      vsws=[dict(v=v, free=n) for v, n in vsws])}


def pre_eni(inst=1, type="Secondary", rdma=False, vsw=1, n4=2, n6=0, tagged=True):
    return dict(inst=inst, type=type, rdma=rdma, vsw=vsw, n4=n4, n6=n6, tagged=tagged)


def call(k, c=1, **kw):
    d = dict(a="call", c=c, k=k, ei=0, ghost=0, fam=4, n4=0, n6=0, type="", idx=[], stale=0, plan={}, mlag=0, alag=0, dlag=0, trunk=0)
    d["async"] = False
    d.update(kw)
    return d


def directed():
    """Hand-written histories, one per clause / known hazard (each needs a fault at a specific request, a lag, or two calls)."""
    S = []
    cr = "CreateNetworkInterface"; at = "AttachNetworkInterface"; de = "DescribeNetworkInterfaces"
    a4 = "AssignPrivateIpAddresses"; a6 = "AssignIpv6Addresses"; u4 = "UnassignPrivateIpAddresses"; u6 = "UnassignIpv6Addresses"
    dt = "DetachNetworkInterface"; dl = "DeleteNetworkInterface"
    base = [pre_eni(n4=3, n6=2)]
    for v6 in (False, True):
        n6 = 1 if v6 else 0
        c0 = lambda **kw: conf(v6=v6, pre=base, **kw)
        # create: plain, reply lost then recovered by the retry, every reply lost then recovered by the NEXT call (same token)
        S.append([c0(), call("create", n4=2, n6=n6, type="secondary"), call("load", ei=1), call("attached")])
        S.append([c0(), call("create", n4=2, n6=n6, plan={cr: ["lost"]}, mlag=1, alag=1), call("attached")])
        S.append([c0(), call("create", n4=1, n6=n6, plan={cr: ["ea", "eb:Throttling"]}), call("attached")])
        S.append([c0(), call("create", n4=2, n6=n6, plan={cr: ["lost", "lost"]}), call("create", n4=2, n6=n6), call("attached")])
        # create: attach fails / its reply is lost / never completes / metadata never shows the interface
        for out in ATTACH_OUT:
            S.append([c0(), call("create", n4=2, n6=n6, plan={at: [out]}), call("delete", ei=1), call("attached")])
        S.append([c0(), call("create", n4=2, n6=n6, alag="never"), call("delete", ei=1, dlag=1), call("delete", ei=1)])
        S.append([c0(), call("create", n4=2, n6=n6, mlag="never"), call("delete", ei=1)])
        S.append([c0(), call("create", n4=2, n6=n6, plan={de: ["eb:Throttling", "lost"]}, alag=2, mlag=2)])
        S.append([c0(), call("create", n4=2, n6=n6, plan={de: ["eb:Throttling"] * 7})])
        # create: exhausted vSwitch -> blocked, the other one is tried; both exhausted
        for pol in ("random", "most"):
            S.append([c0(policy=pol), call("create", n4=2, n6=n6, plan={cr: ["eb:InvalidVSwitchId.IpNotEnough"]}), call("create", n4=1, n6=n6),
                      call("create", n4=1, n6=n6)])
            S.append([c0(policy=pol, vsws=((1, 4), (2, 30))), call("create", n4=3, n6=n6), call("create", n4=2, n6=n6)])
        S.append([c0(), call("create", n4=2, n6=n6, plan={cr: ["eb:QuotaExceeded.PrivateIpAddress", "eb:InvalidVSwitchId.IpNotEnough"]}),
                  call("create", n4=1, n6=n6)])
        # trunk / erdma interfaces, tag filter
        S.append([conf(v6=v6, trunk=True, erdma=True, tagf=True, pre=[pre_eni(), pre_eni(tagged=False), pre_eni(inst=2), pre_eni(type="Trunk")]),
                  call("attached"), call("create", n4=1, n6=n6, type="trunk"), call("create", n4=1, n6=n6, type="erdma"), call("attached", trunk=4),
                  call("attached", trunk=1)])
        S.append([conf(v6=v6, tagf=True, pre=[pre_eni(tagged=False), pre_eni(inst=0), pre_eni(rdma=True)]), call("attached"),
                  call("create", n4=2, n6=n6), call("attached")])
        # assign: reply lost once / always (recovered by the next call with the same arguments), partial, refused, metadata late / never
        for fam, act, n in ((4, a4, dict(n4=2)), (6, a6, dict(n6=2))):
            if fam == 6 and not v6:
                continue
            S.append([c0(), call("assign", fam=fam, plan={act: ["lost"]}, mlag=1, **n), call("load")])
            S.append([c0(), call("assign", fam=fam, plan={act: ["ea", "eb:Throttling", "lost"]}, **n), call("load")])
            S.append([c0(), call("assign", fam=fam, plan={act: ["lost"] * 6}, **n), call("assign", fam=fam, **n), call("load")])
            S.append([c0(), call("assign", fam=fam, plan={act: ["partial:1"]}, **n), call("assign", fam=fam, plan={act: ["partial:0"]}, **n)])
            S.append([c0(), call("assign", fam=fam, mlag="never", **n), dict(a="settle"), call("load")])
            S.append([c0(), call("assign", fam=fam, plan={act: ["eb:InvalidVSwitchId.IpNotEnough"]}, **n), call("assign", fam=fam, **n)])
            S.append([c0(), call("assign", fam=fam, ghost=1, **n)])
            # unassign: plain, lost reply (second attempt finds nothing to do), refused, metadata late / never, stale address, remote removal
            un = (u4 if fam == 4 else u6)
            S.append([c0(), call("unassign", fam=fam, idx=[0, 1], mlag=1), call("load")])
            S.append([c0(), call("unassign", fam=fam, idx=[0], plan={un: ["lost"]}), call("load")])
            S.append([c0(), call("unassign", fam=fam, idx=[0, 1], plan={un: ["ea", "eb:Throttling"]}), call("load")])
            S.append([c0(), call("unassign", fam=fam, idx=[1], plan={un: ["eb:Forbidden.RAM"]}), call("load")])
            S.append([c0(), call("unassign", fam=fam, idx=[0], plan={un: ["eb:Throttling"] * 7})])
            S.append([c0(), call("unassign", fam=fam, idx=[0], mlag="never"), dict(a="settle"), call("load")])
            S.append([c0(), call("unassign", fam=fam, idx=[0], stale=1), call("unassign", fam=fam, idx=[], stale=2)])
            S.append([c0(), dict(a="remove", ei=0, fam=fam, idx=0, mlag=1), call("load"), call("unassign", fam=fam, idx=[0, 1]), call("load")])
            S.append([c0(), call("unassign", fam=fam, ghost=2, stale=3)])
        # delete: plain, detach slow, replies lost, refused, twice, of something that never existed
        S.append([c0(), call("delete"), call("attached"), call("load")])
        S.append([c0(), call("delete", dlag=2), call("delete"), call("delete"), call("attached")])
        S.append([c0(), call("delete", plan={dt: ["lost"]}), call("delete"), call("attached")])
        S.append([c0(), call("delete", plan={dl: ["lost"]}), call("delete"), call("attached")])
        S.append([c0(), call("delete", plan={dt: ["eb:Throttling"]}), call("delete", plan={dl: ["eb:Throttling"]}), call("delete")])
        S.append([c0(), call("delete", ghost=3)])
        S.append([c0(), call("delete"), call("delete", ghost=1)])
        # two callers at once (separate interfaces; same interface)
        S.append([conf(v6=v6, slots=2, pre=base + [pre_eni(vsw=2)]), call("assign", c=1, ei=0, n4=2, plan={a4: ["lost"]}, mlag=1, **{"async": True}),
                  call("assign", c=2, ei=1, n4=2, mlag=1, **{"async": True}), dict(a="wait", c=1), dict(a="wait", c=2), call("attached")])
        S.append([conf(v6=v6, slots=2, pre=base), call("create", c=1, n4=2, n6=n6, plan={cr: ["lost"]}, **{"async": True}),
                  call("create", c=2, n4=2, n6=n6, **{"async": True}), dict(a="wait", c=1), dict(a="wait", c=2), call("attached")])
        S.append([conf(v6=v6, slots=2, pre=base), call("assign", c=1, n4=1, plan={a4: ["lost"] * 6}, **{"async": True}),
                  call("assign", c=2, n4=1, **{"async": True}), dict(a="wait", c=1), dict(a="wait", c=2), call("assign", c=1, n4=1), call("load")])
    return S


def rand_plan(rng, acts, p=0.5, maxlen=3):
    plan = {}
    for act, outs in acts:
        if rng.random() < p:
            n = rng.choice([1, 1, 1, 2, maxlen, 7]) if rng.random() < 0.9 else 1
            plan[act] = [rng.choice(outs + ["ok"]) for _ in range(n)]
    return plan


def random_scenarios(seed, n):
    rng = random.Random(seed * 100003 + 17)
    S = []
    for _ in range(n):
        v6 = rng.random() < 0.4
        pre = [pre_eni(n4=rng.randint(1, 4), n6=rng.randint(0, 2), vsw=rng.choice([1, 2]), tagged=rng.random() < 0.8,
                       inst=rng.choice([1, 1, 1, 2, 0]), type=rng.choice(["Secondary", "Secondary", "Trunk"]), rdma=rng.random() < 0.15)
               for _ in range(rng.randint(0, 3))]
        slots = 2 if rng.random() < 0.25 else 1
        sc = [conf(v6=v6, policy=rng.choice(["random", "most"]), tagf=rng.random() < 0.4, trunk=rng.random() < 0.3, erdma=rng.random() < 0.2,
                   slots=slots, pre=pre, vsws=((1, rng.choice([3, 6, 30])), (2, rng.choice([3, 30]))))]
        pending = set()
        for _ in range(rng.randint(3, 8)):
            c = rng.randint(1, slots)
            if c in pending:
                sc.append(dict(a="wait", c=c))
                pending.discard(c)
            k = rng.choice(["create", "create", "assign", "assign", "assign", "unassign", "unassign", "delete", "delete", "load", "attached", "env"])
            if k == "env":
                sc.append(rng.choice([dict(a="settle"), dict(a="remove", ei=rng.randint(0, 3), fam=rng.choice([4, 6]) if v6 else 4, idx=rng.randint(0, 3),
                                                             mlag=rng.choice(LAGS))]))
                continue
            fam = rng.choice([4, 6]) if v6 else 4
            kw = dict(c=c, ei=rng.randint(0, 4), fam=fam, mlag=rng.choice(LAGS), alag=rng.choice(LAGS), dlag=rng.choice(LAGS))
            if rng.random() < 0.06:
                kw["ghost"] = rng.randint(1, 3)
            if k == "create":
                kw.update(n4=rng.randint(1, 3), n6=rng.randint(0, 2) if v6 else 0, type=rng.choice(["secondary", "secondary", "secondary", "trunk", "erdma"]),
                          plan=rand_plan(rng, [("CreateNetworkInterface", CREATE_OUT), ("AttachNetworkInterface", ATTACH_OUT),
                                               ("DescribeNetworkInterfaces", DESCRIBE_OUT), ("DescribeVSwitches", ["eb:Throttling"])], p=0.3))
            elif k == "assign":
                kw.update(n4=rng.randint(1, 3), n6=rng.randint(1, 2),
                          plan=rand_plan(rng, [("AssignPrivateIpAddresses", ASSIGN_OUT), ("AssignIpv6Addresses", ASSIGN_OUT)], p=0.6))
            elif k == "unassign":
                kw.update(idx=[rng.randint(0, 3) for _ in range(rng.randint(0, 3))], stale=rng.choice([0, 0, 0, 1, 2]),
                          plan=rand_plan(rng, [("UnassignPrivateIpAddresses", UNASSIGN_OUT), ("UnassignIpv6Addresses", UNASSIGN_OUT)], p=0.6))
            elif k == "delete":
                kw.update(plan=rand_plan(rng, [("DetachNetworkInterface", DETACH_OUT), ("DeleteNetworkInterface", DELETE_OUT)], p=0.4))
            elif k == "attached":
                kw.update(trunk=rng.choice([0, 0, 1, 2]), plan=rand_plan(rng, [("DescribeNetworkInterfaces", DESCRIBE_OUT)], p=0.3))
            if slots == 2 and rng.random() < 0.6:
                kw["async"] = True
                pending.add(c)
            sc.append(call(k, **kw))
        for c in sorted(pending):
            sc.append(dict(a="wait", c=c))
        if rng.random() < 0.5:
            sc.append(call("attached"))
        S.append(sc)
    return S


def build(ctx, fake_time):
    """Test binary of pkg/factory/aliyun; fake_time: GOEXPERIMENT=synctest (the scenarios run on a virtual clock)."""
    old = os.environ.get("GOEXPERIMENT")
    try:
        if fake_time:
            os.environ["GOEXPERIMENT"] = "synctest"
        else:
            os.environ.pop("GOEXPERIMENT", None)
        b = go_build_tests(ctx, [PKG])[PKG]
    finally:
        if old is None:
            os.environ.pop("GOEXPERIMENT", None)
        else:
            os.environ["GOEXPERIMENT"] = old
    dst = b + (".sync" if fake_time else ".real")
    shutil.move(b, dst)
    return dst


def run_harness(ctx, binary, scen_file, nshard, tag, timeout=900):
    def one(k):
        tf = os.path.join(ctx.scratch, "factory.%s.%d.trace.ndjson" % (tag, k))
        rc, out = run_test_bin(ctx, binary, "TestVerifFactory", env=dict(VERIF_SCEN=scen_file, VERIF_TRACE=tf, VERIF_SHARD="%d/%d" % (k, nshard)),
                               timeout=timeout)
        if rc != 0 or not os.path.exists(tf):
            raise MachineryError("factory harness (%s) shard %d failed rc=%s\n%s" % (tag, k, rc, out[-3000:]))
        rows = read_ndjson(tf)
        rows.sort(key=lambda r: r["seq"])
        return tc.split_traces(rows)
    with concurrent.futures.ThreadPoolExecutor(max_workers=nshard) as ex:
        parts = list(ex.map(one, range(nshard)))
    return [t for p in parts for t in p]


DROP = ("seq", "msg", "plan", "fake_time", "free", "trunk")


def strip(t):
    return [{k: v for k, v in r.items() if k not in DROP} for r in t]


def cost(sc):
    """Rough real-time cost of a scenario in seconds (constants of aliyun.go), used to pick the real-clock sample."""
    s = 0
    for st in sc:
        if st.get("a") != "call":
            continue
        never = "never" in (st.get("mlag"), st.get("alag"))
        s += {"create": 3, "assign": 1, "unassign": 1, "delete": 5}.get(st["k"], 0) + st.get("mlag", 0) * 1 if not never else 12
        s += sum(len(v) for v in st.get("plan", {}).values()) * 0.1
    return s


def tags(t):
    s = set()
    for r in t:
        if r["ev"] == "http":
            if r["out"] == "lost": s.add("lost_reply")
            if r["out"] == "err": s.add("refused")
            if r.get("plan", "").startswith("partial"): s.add("partial")
            if r["tok"] and r["out"] == "ok" and not r["eff"] and r["act"] in ("CreateNetworkInterface", "AssignPrivateIpAddresses", "AssignIpv6Addresses"):
                s.add("token_replay")
        if r["ev"] == "ret" and r["err"]:
            s.add("call_failed")
            if r["k"] == "create" and r["eni"]["e"]: s.add("eni_with_error")
            if r["k"] == "assign" and (r["v4"] or r["v6"]): s.add("addrs_with_error")
        if r["ev"] == "env" and r["k"] == "remote_remove": s.add("remote_remove")
    if any(r["ev"] == "call" and r["c"] == 2 for r in t): s.add("two_callers")
    return s


def classify(pid, bad):
    ev = bad.get("ev", "?")
    if ev == "ret":
        return "%s_factory_%s_return%s" % (pid.lower(), bad.get("k"), "_error" if bad.get("err") else "")
    if ev == "http":
        return "%s_factory_request_%s" % (pid.lower(), bad.get("act"))
    return "%s_factory_at_%s" % (pid.lower(), ev)


def prepare(ctx):
    """MC + scenarios + build + harness runs, once per ctx."""
    if getattr(ctx, "_factory", None):
        return ctx._factory
    q = ctx.quick
    mc = tlc_mc(ctx, "Factory_mc", "Factory_mc.cfg" if q else "Factory_mc_thorough.cfg", timeout=1500, coverage=not q)
    gen = tc.simulate(ctx, "Factory_mc", "Factory_gen.cfg", num=150 if q else 1500, depth=60)
    scens = []
    with open(gen) as fh:
        for line in fh:
            if line.strip():
                scens.append(("tlc", json.loads(line)))
    scens += [("directed", s) for s in directed()]
    scens += [("random", s) for s in random_scenarios(ctx.seed, 400 if q else 6000)]
    sf = os.path.join(ctx.scratch, "factory.scen.ndjson")
    with open(sf, "w") as fh:
        for _, s in scens:
            fh.write(json.dumps(s) + "\n")
    sync_bin = build(ctx, True)
    traces = run_harness(ctx, sync_bin, sf, 8 if q else 16, "sync")
    # the same driver on the real clock (the constants of aliyun.go are paid): a sample of cheap scenarios, one per process
    real_bin = build(ctx, False)
    cheap = sorted((s for _, s in scens if cost(s) <= (9 if q else 25)), key=lambda s: -cost(s))
    rng = random.Random(ctx.seed)
    rng.shuffle(cheap)
    nreal = 32 if q else 96
    rf = os.path.join(ctx.scratch, "factory.real.scen.ndjson")
    with open(rf, "w") as fh:
        for s in cheap[:nreal]:
            fh.write(json.dumps(s) + "\n")
    real = run_harness(ctx, real_bin, rf, min(nreal, len(cheap[:nreal])) or 1, "real", timeout=300 if q else 900)
    ctx._factory = dict(mc=mc, scens=scens, traces=traces, real=real, nsrc={k: sum(1 for s, _ in scens if s == k) for k in ("tlc", "directed", "random")})
    return ctx._factory


def stage(ctx, pid):
    assert pid in PIDS
    st = prepare(ctx)
    alltr = st["traces"] + st["real"]
    rej = tc.validate_many(ctx, "Factory_trace", trace_cfg(pid), [strip(t) for t in alltr], max_reruns=8)
    for k, line in rej:
        t = alltr[k]
        bad = t[line - 1] if line - 1 < len(t) else {}
        calls = [r for r in t[:line] if r["ev"] == "call"]
        add_violation(ctx, classify(pid, bad), dict(failing_line=line, event=bad, call=calls[-1] if calls else {}, reset=t[0], trace=t[1:line + 1][-60:]),
                      what="line %d %s" % (line, json.dumps({k: v for k, v in bad.items() if k not in ("seq",)})[:400]))
    tagc = {}
    for t in alltr:
        for g in tags(t):
            tagc[g] = tagc.get(g, 0) + 1
    relevant = {"lost_reply", "refused", "partial", "token_replay", "eni_with_error", "addrs_with_error", "remote_remove", "two_callers"}
    return dict(states=st["mc"].distinct, transitions=st["mc"].generated, traces=len(alltr), traces_validated_against_impl=len(alltr),
                evaluations=len(alltr), traces_virtual_clock=len(st["traces"]), traces_real_clock=len(st["real"]),
                events=sum(len(t) for t in alltr), factory_calls=sum(1 for t in alltr for r in t if r["ev"] == "call"),
                http_requests=sum(1 for t in alltr for r in t if r["ev"] == "http"), scenario_sources=st["nsrc"], trace_tags=tagc,
                distinct_nontrivial=len({h(strip(t)) for t in alltr if tags(t) & relevant}), rejected=len(rej),
                coverage_zero_actions=st["mc"].coverage_zero, exhaustive=False, samples=[strip(alltr[0])[:10]],
                rule="scenarios = TLC simulation of Factory_mc.tla (which factory call with which arguments, fault per OpenAPI request, "
                     "metadata / attach / detach lag) + directed histories + seeded random scenarios; executed against the real factory / "
                     "OpenAPI client / metadata reader on a fake HTTP cloud, on a virtual clock (testing/synctest) and a sample on the real "
                     "clock; non-trivial = trace carries one of %s; distinct by trace hash" % sorted(relevant))


ASSUMPTIONS = [
    "only the HTTP transports are fakes: ECS / VPC OpenAPI actions and the 100.100.100.200 metadata paths are answered by one stateful fake cloud mirrored by Factory.tla",
    "the cloud replays the answer of a repeated ClientToken (until that answer is no longer true); a resource whose every announcement was lost is outside C07",
    "lenient cloud: deleting a missing interface and detaching an unattached one succeed; unassign removes what is still assigned and fails only when nothing is",
    "time: scenarios run inside a testing/synctest bubble (virtual clock, production back-off tables) plus a real-clock sample with millisecond back-off tables; "
    "lags (attach, detach, metadata) are counted in observations, never in time",
    "the vSwitch cache does not expire inside a scenario",
]
