"""Family 'Factory' (specs/Factory.tla, harness pkg/factory/aliyun TestVerifFactory): the real cloud factory on the real
OpenAPI client and the real metadata reader, only the HTTP transports faked.

stage(ctx, pid) with pid in {"C01", "C06", "C07", "F"}: MC of the bounded closure + scenario generation (TLC simulation,
directed scenarios, seeded random scenarios) + harness + trace validation with Enforce = {pid}; violations are added to
ctx, a coverage dict is returned; finish() is left to the caller (props/xfactory.py, or the check of the listed property).
The expensive part (MC, scenarios, build, harness run) happens once per ctx and is shared by the stages.
"""
import concurrent.futures, random, shutil
from vlib import *
import tracecheck as tc

PKG = "pkg/factory/aliyun"
PIDS = ("C01", "C06", "C07", "F")

CREATE_OUT = ["lost", "ea", "eb:InvalidVSwitchId.IpNotEnough", "eb:QuotaExceeded.PrivateIpAddress", "eb:Throttling", "eb:InternalError",
              "eb:Forbidden.RAM", "eb:SecurityGroupInstanceLimitExceed"]
ATTACH_OUT = ["lost", "ea", "eb:EniPerInstanceLimitExceeded", "eb:Throttling", "eb:InvalidOperation.InvalidEcsState"]
DESCRIBE_OUT = ["eb:Throttling", "eb:InternalError", "lost", "eb:Forbidden.RAM"]
ASSIGN_OUT = ["lost", "ea", "partial:1", "partial:0", "eb:InvalidVSwitchId.IpNotEnough", "eb:Throttling", "eb:Operation.Conflict",
              "eb:InvalidOperation.Ipv4CountExceeded", "eb:InternalError"]
UNASSIGN_OUT = ["lost", "ea", "eb:Throttling", "eb:Forbidden.RAM", "eb:InternalError"]
DETACH_OUT = ["lost", "eb:Throttling", "eb:InvalidOperation.Conflict", "eb:InternalError"]
DELETE_OUT = ["lost", "eb:Throttling", "eb:InvalidOperation.InvalidEniState", "eb:InternalError"]
LAGS = [0, 0, 0, 1, 2, "never"]


def trace_cfg(pid):
    return ("SPECIFICATION TSpec\nCONSTANTS\n  Slots = {1,2,3,4,5,6,7,8,9,10,11,12}\n  Enis = {1,2,3,4,5,6,7,8,9,10,11,12,13,14,15,16}\n  Enforce = {\"%s\"}\n"
            "CONSTRAINT Inv%s\nCONSTRAINT HighWater\nINVARIANT NotAccepted\nPOSTCONDITION Report\nCHECK_DEADLOCK FALSE\n" % (pid, pid))


def conf(v6=False, policy="random", tagf=False, trunk=False, erdma=False, slots=1, pre=(), vsws=((1, 30), (2, 30))):
    return {"a": "conf", "conf": dict(v6=v6, policy=policy, tagf=tagf, trunk=trunk, erdma=erdma, slots=slots, pre=list(pre),
                                      vsws=[dict(v=v, free=n) for v, n in vsws])}


def pre_eni(inst=1, type="Secondary", rdma=False, vsw=1, n4=2, n6=0, tagged=True):
    return dict(inst=inst, type=type, rdma=rdma, vsw=vsw, n4=n4, n6=n6, tagged=tagged)


def call(k, c=1, **kw):
    d = dict(a="call", c=c, k=k, ei=0, ghost=0, fam=4, n4=0, n6=0, type="", idx=[], stale=0, plan={}, mlag=0, alag=0, dlag=0, trunk=0)
    d["async"] = False
    d.update(kw)
    return d


def directed():
    """Hand-written histories, one per clause / known hazard (each needs a fault at a specific request, a lag, or two calls)."""
    S = []
    cr = "CreateNetworkInterface"; at = "AttachNetworkInterface"; de = "DescribeNetworkInterfaces"
    a4 = "AssignPrivateIpAddresses"; a6 = "AssignIpv6Addresses"; u4 = "UnassignPrivateIpAddresses"; u6 = "UnassignIpv6Addresses"
    dt = "DetachNetworkInterface"; dl = "DeleteNetworkInterface"
    base = [pre_eni(n4=3, n6=2)]
    for v6 in (False, True):
        n6 = 1 if v6 else 0
        c0 = lambda **kw: conf(v6=v6, pre=base, **kw)
        # create: plain, reply lost then recovered by the retry, every reply lost then recovered by the NEXT call (same token)
        S.append([c0(), call("create", n4=2, n6=n6, type="secondary"), call("load", ei=1), call("attached")])
        S.append([c0(), call("create", n4=2, n6=n6, plan={cr: ["lost"]}, mlag=1, alag=1), call("attached")])
        S.append([c0(), call("create", n4=1, n6=n6, plan={cr: ["ea", "eb:Throttling"]}), call("attached")])
        S.append([c0(), call("create", n4=2, n6=n6, plan={cr: ["lost", "lost"]}), call("create", n4=2, n6=n6), call("attached")])
        # create: attach fails / its reply is lost / never completes / metadata never shows the interface
        for out in ATTACH_OUT:
            S.append([c0(), call("create", n4=2, n6=n6, plan={at: [out]}), call("delete", ei=1), call("attached")])
        S.append([c0(), call("create", n4=2, n6=n6, alag="never"), call("delete", ei=1, dlag=1), call("delete", ei=1)])
        S.append([c0(), call("create", n4=2, n6=n6, mlag="never"), call("delete", ei=1)])
        S.append([c0(), call("create", n4=2, n6=n6, plan={de: ["eb:Throttling", "lost"]}, alag=2, mlag=2)])
        S.append([c0(), call("create", n4=2, n6=n6, plan={de: ["eb:Throttling"] * 7})])
        # create: exhausted vSwitch -> blocked, the other one is tried; both exhausted
        for pol in ("random", "most"):
            S.append([c0(policy=pol), call("create", n4=2, n6=n6, plan={cr: ["eb:InvalidVSwitchId.IpNotEnough"]}), call("create", n4=1, n6=n6),
                      call("create", n4=1, n6=n6)])
            S.append([c0(policy=pol, vsws=((1, 4), (2, 30))), call("create", n4=3, n6=n6), call("create", n4=2, n6=n6)])
        S.append([c0(), call("create", n4=2, n6=n6, plan={cr: ["eb:QuotaExceeded.PrivateIpAddress", "eb:InvalidVSwitchId.IpNotEnough"]}),
                  call("create", n4=1, n6=n6)])
        # trunk / erdma interfaces, tag filter
        S.append([conf(v6=v6, trunk=True, erdma=True, tagf=True, pre=[pre_eni(), pre_eni(tagged=False), pre_eni(inst=2), pre_eni(type="Trunk")]),
                  call("attached"), call("create", n4=1, n6=n6, type="trunk"), call("create", n4=1, n6=n6, type="erdma"), call("attached", trunk=4),
                  call("attached", trunk=1)])
        S.append([conf(v6=v6, tagf=True, pre=[pre_eni(tagged=False), pre_eni(inst=0), pre_eni(rdma=True)]), call("attached"),
                  call("create", n4=2, n6=n6), call("attached")])
        # assign: reply lost once / always (recovered by the next call with the same arguments), partial, refused, metadata late / never
        for fam, act, n in ((4, a4, dict(n4=2)), (6, a6, dict(n6=2))):
            if fam == 6 and not v6:
                continue
            S.append([c0(), call("assign", fam=fam, plan={act: ["lost"]}, mlag=1, **n), call("load")])
            S.append([c0(), call("assign", fam=fam, plan={act: ["ea", "eb:Throttling", "lost"]}, **n), call("load")])
            S.append([c0(), call("assign", fam=fam, plan={act: ["lost"] * 6}, **n), call("assign", fam=fam, **n), call("load")])
            S.append([c0(), call("assign", fam=fam, plan={act: ["partial:1"]}, **n), call("assign", fam=fam, plan={act: ["partial:0"]}, **n)])
            S.append([c0(), call("assign", fam=fam, mlag="never", **n), dict(a="settle"), call("load")])
            S.append([c0(), call("assign", fam=fam, plan={act: ["eb:InvalidVSwitchId.IpNotEnough"]}, **n), call("assign", fam=fam, **n)])
            S.append([c0(), call("assign", fam=fam, ghost=1, **n)])
            # unassign: plain, lost reply (second attempt finds nothing to do), refused, metadata late / never, stale address, remote removal
            un = (u4 if fam == 4 else u6)
            S.append([c0(), call("unassign", fam=fam, idx=[0, 1], mlag=1), call("load")])
            S.append([c0(), call("unassign", fam=fam, idx=[0], plan={un: ["lost"]}), call("load")])
            S.append([c0(), call("unassign", fam=fam, idx=[0, 1], plan={un: ["ea", "eb:Throttling"]}), call("load")])
            S.append([c0(), call("unassign", fam=fam, idx=[1], plan={un: ["eb:Forbidden.RAM"]}), call("load")])
            S.append([c0(), call("unassign", fam=fam, idx=[0], plan={un: ["eb:Throttling"] * 7})])
            S.append([c0(), call("unassign", fam=fam, idx=[0], mlag="never"), dict(a="settle"), call("load")])
            S.append([c0(), call("unassign", fam=fam, idx=[0], stale=1), call("unassign", fam=fam, idx=[], stale=2)])
            S.append([c0(), dict(a="remove", ei=0, fam=fam, idx=0, mlag=1), call("load"), call("unassign", fam=fam, idx=[0, 1]), call("load")])
            S.append([c0(), call("unassign", fam=fam, ghost=2, stale=3)])
        # delete: plain, detach slow, replies lost, refused, twice, of something that never existed
        S.append([c0(), call("delete"), call("attached"), call("load")])
        S.append([c0(), call("delete", dlag=2), call("delete"), call("delete"), call("attached")])
        S.append([c0(), call("delete", plan={dt: ["lost"]}), call("delete"), call("attached")])
        S.append([c0(), call("delete", plan={dl: ["lost"]}), call("delete"), call("attached")])
        S.append([c0(), call("delete", plan={dt: ["eb:Throttling"]}), call("delete", plan={dl: ["eb:Throttling"]}), call("delete")])
        S.append([c0(), call("delete", ghost=3)])
        S.append([c0(), call("delete"), call("delete", ghost=1)])
        # the metadata service fails reads (5xx is retried four times by the reader, then the read fails)
        S.append([c0(), call("load", plan={"meta": ["e500"]}), call("load", plan={"meta": ["e500"] * 4}), call("load", plan={"meta": ["ok", "lost", "lost", "lost", "lost"]})])
        S.append([c0(), call("attached", plan={"meta": ["ok", "ok", "e500", "e500", "e500", "e500"]}), call("attached", plan={"meta": ["e500"] * 2})])
        S.append([c0(), call("create", n4=2, n6=n6, plan={"meta": ["e500"] * 9}), call("attached")])
        S.append([c0(), call("create", n4=2, n6=n6, plan={"meta": ["ok"] * 3 + ["e500"] * 4}), call("attached")])
        S.append([c0(), call("assign", n4=2, plan={"meta": ["e500"] * 5}), call("unassign", idx=[0, 1], plan={"meta": ["e500"] * 5}), call("load")])
        # two callers at once (separate interfaces; same interface)
        S.append([conf(v6=v6, slots=2, pre=base + [pre_eni(vsw=2)]), call("assign", c=1, ei=0, n4=2, plan={a4: ["lost"]}, mlag=1, **{"async": True}),
                  call("assign", c=2, ei=1, n4=2, mlag=1, **{"async": True}), dict(a="wait", c=1), dict(a="wait", c=2), call("attached")])
        S.append([conf(v6=v6, slots=2, pre=base), call("create", c=1, n4=2, n6=n6, plan={cr: ["lost"]}, **{"async": True}),
                  call("create", c=2, n4=2, n6=n6, **{"async": True}), dict(a="wait", c=1), dict(a="wait", c=2), call("attached")])
        S.append([conf(v6=v6, slots=2, pre=base), call("assign", c=1, n4=1, plan={a4: ["lost"] * 6}, **{"async": True}),
                  call("assign", c=2, n4=1, **{"async": True}), dict(a="wait", c=1), dict(a="wait", c=2), call("assign", c=1, n4=1), call("load")])
    return S


META_OUT = ["e500", "lost", "ok", "ok"]


def rand_plan(rng, acts, p=0.5, maxlen=3):
    plan = {}
    if rng.random() < 0.12:       # the metadata service itself fails some reads
        plan["meta"] = [rng.choice(META_OUT) for _ in range(rng.choice([1, 2, 4, 5, 9]))]
    for act, outs in acts:
        if rng.random() < p:
            n = rng.choice([1, 1, 1, 2, maxlen, 7]) if rng.random() < 0.9 else 1
            plan[act] = [rng.choice(outs + ["ok"]) for _ in range(n)]
    return plan


def random_scenarios(seed, n):
    rng = random.Random(seed * 100003 + 17)
    S = []
    for _ in range(n):
        v6 = rng.random() < 0.4
        pre = [pre_eni(n4=rng.randint(1, 4), n6=rng.randint(0, 2), vsw=rng.choice([1, 2]), tagged=rng.random() < 0.8,
                       inst=rng.choice([1, 1, 1, 2, 0]), type=rng.choice(["Secondary", "Secondary", "Trunk"]), rdma=rng.random() < 0.15)
               for _ in range(rng.randint(0, 3))]
        slots = 2 if rng.random() < 0.25 else 1
        sc = [conf(v6=v6, policy=rng.choice(["random", "most"]), tagf=rng.random() < 0.4, trunk=rng.random() < 0.3, erdma=rng.random() < 0.2,
                   slots=slots, pre=pre, vsws=((1, rng.choice([3, 6, 30])), (2, rng.choice([3, 30]))))]
        pending = set()
        for _ in range(rng.randint(3, 8)):
            c = rng.randint(1, slots)
            if c in pending:
                sc.append(dict(a="wait", c=c))
                pending.discard(c)
            k = rng.choice(["create", "create", "assign", "assign", "assign", "unassign", "unassign", "delete", "delete", "load", "attached", "env"])
            if k == "env":
                sc.append(rng.choice([dict(a="settle"), dict(a="remove", ei=rng.randint(0, 3), fam=rng.choice([4, 6]) if v6 else 4, idx=rng.randint(0, 3),
                                                             mlag=rng.choice(LAGS))]))
                continue
            fam = rng.choice([4, 6]) if v6 else 4
            kw = dict(c=c, ei=rng.randint(0, 4), fam=fam, mlag=rng.choice(LAGS), alag=rng.choice(LAGS), dlag=rng.choice(LAGS))
            if rng.random() < 0.06:
                kw["ghost"] = rng.randint(1, 3)
            if k == "create":
                kw.update(n4=rng.randint(1, 3), n6=rng.randint(0, 2) if v6 else 0, type=rng.choice(["secondary", "secondary", "secondary", "trunk", "erdma"]),
                          plan=rand_plan(rng, [("CreateNetworkInterface", CREATE_OUT), ("AttachNetworkInterface", ATTACH_OUT),
                                               ("DescribeNetworkInterfaces", DESCRIBE_OUT), ("DescribeVSwitches", ["eb:Throttling"])], p=0.3))
            elif k == "assign":
                kw.update(n4=rng.randint(1, 3), n6=rng.randint(1, 2),
                          plan=rand_plan(rng, [("AssignPrivateIpAddresses", ASSIGN_OUT), ("AssignIpv6Addresses", ASSIGN_OUT)], p=0.6))
            elif k == "unassign":
                kw.update(idx=[rng.randint(0, 3) for _ in range(rng.randint(0, 3))], stale=rng.choice([0, 0, 0, 1, 2]),
                          plan=rand_plan(rng, [("UnassignPrivateIpAddresses", UNASSIGN_OUT), ("UnassignIpv6Addresses", UNASSIGN_OUT)], p=0.6))
            elif k == "delete":
                kw.update(plan=rand_plan(rng, [("DetachNetworkInterface", DETACH_OUT), ("DeleteNetworkInterface", DELETE_OUT)], p=0.4))
            elif k == "attached":
                kw.update(trunk=rng.choice([0, 0, 1, 2]), plan=rand_plan(rng, [("DescribeNetworkInterfaces", DESCRIBE_OUT)], p=0.3))
            elif k == "load":
                kw.update(plan=rand_plan(rng, [], p=0))
            if slots == 2 and rng.random() < 0.6:
                kw["async"] = True
                pending.add(c)
            sc.append(call(k, **kw))
        for c in sorted(pending):
            sc.append(dict(a="wait", c=c))
        if rng.random() < 0.5:
            sc.append(call("attached"))
        S.append(sc)
    return S


def sconf(v6=False, enis=2, cap=3, batch=2, min_idle=0, max_idle=1, pre=(), vsws=((1, 30), (2, 30)), tagf=False):
    c = conf(v6=v6, pre=pre, vsws=vsws, tagf=tagf)
    c["conf"].update(enis=enis, cap=cap, batch=batch, minIdle=min_idle, maxIdle=max_idle)
    return c


def plan(p=None, **kw):
    d = dict(a="plan", plan=p or {}, mlag=0, alag=0, dlag=0)
    d.update(kw)
    return d


def stack_scenarios(seed, n):
    """Full stack (real pool on the real factory): ADD burst, shrink, failed assign, failed attach, lost replies, drift; then random ones."""
    adds = lambda *ps: [dict(a="add", p=p) for p in ps]
    dels = lambda *ps: [dict(a="del", p=p) for p in ps]
    wait, nap = dict(a="addwait"), lambda s: dict(a="sleep", s=s)
    S = []
    for v6 in (False, True):
        a6 = "AssignIpv6Addresses"
        S.append([sconf(v6=v6)] + adds(1, 2, 3, 4) + [wait] + dels(1, 2, 3) + [nap(300)])                                   # burst + shrink
        S.append([sconf(v6=v6, min_idle=2, max_idle=3, pre=[pre_eni(n4=2, n6=1 if v6 else 0)])] + adds(1, 2) + [wait, nap(300)] + dels(1, 2) + [nap(400)])
        S.append([sconf(v6=v6), plan({"AssignPrivateIpAddresses": ["lost"] * 6})] + adds(1, 2, 3) + [wait] + adds(4) + [wait] + dels(1, 2, 3, 4) + [nap(300)])
        S.append([sconf(v6=v6), plan({"AssignPrivateIpAddresses": ["eb:InvalidVSwitchId.IpNotEnough"], a6: ["partial:0", "lost"]})] + adds(1, 2, 3, 4, 5) + [wait, nap(200)])
        S.append([sconf(v6=v6), plan({"AttachNetworkInterface": ["eb:EniPerInstanceLimitExceeded"]})] + adds(1, 2) + [wait, nap(200)] + adds(3) + [wait])
        S.append([sconf(v6=v6), plan({"AttachNetworkInterface": ["lost"]}, dlag=1)] + adds(1, 2) + [wait, nap(200)])
        S.append([sconf(v6=v6), plan(alag=1000)] + adds(1) + [wait, plan(), nap(120)] + adds(2) + [wait])
        S.append([sconf(v6=v6), plan(mlag=1000)] + adds(1, 2) + [wait, plan()] + adds(3) + [wait])
        S.append([sconf(v6=v6), plan({"CreateNetworkInterface": ["lost"], "DescribeNetworkInterfaces": ["eb:Throttling"]}, mlag=1, alag=1)] + adds(1, 2, 3) + [wait] + dels(1) + [nap(300)])
        S.append([sconf(v6=v6), plan({"CreateNetworkInterface": ["ea", "eb:Throttling"]})] + adds(1) + [wait] + adds(2) + [wait, nap(200)])
        S.append([sconf(v6=v6, pre=[pre_eni(n4=3, n6=2 if v6 else 0), pre_eni(n4=1, n6=1 if v6 else 0)], max_idle=0),
                  plan({"DetachNetworkInterface": ["lost"], "DeleteNetworkInterface": ["eb:Throttling"], "UnassignPrivateIpAddresses": ["lost", "eb:Throttling"]}, dlag=1), nap(600)])
        S.append([sconf(v6=v6, pre=[pre_eni(n4=3, n6=2 if v6 else 0)], max_idle=3)] + adds(1) + [wait, dict(a="remove", ei=0, fam=4, idx=1, mlag=1), nap(200)] + adds(2, 3) + [wait] + dels(1) + [nap(200)])
        S.append([sconf(v6=v6, vsws=((1, 3), (2, 30)))] + adds(1, 2, 3, 4, 5, 6) + [wait, nap(100)])                          # one vSwitch runs dry
    rng = random.Random(seed * 7717 + 3)
    acts = [("CreateNetworkInterface", CREATE_OUT), ("AttachNetworkInterface", ATTACH_OUT), ("DescribeNetworkInterfaces", DESCRIBE_OUT),
            ("AssignPrivateIpAddresses", ASSIGN_OUT), ("AssignIpv6Addresses", ASSIGN_OUT), ("UnassignPrivateIpAddresses", UNASSIGN_OUT),
            ("UnassignIpv6Addresses", UNASSIGN_OUT), ("DetachNetworkInterface", DETACH_OUT), ("DeleteNetworkInterface", DELETE_OUT)]
    for _ in range(n):
        v6 = rng.random() < 0.35
        sc = [sconf(v6=v6, enis=rng.randint(1, 3), cap=rng.randint(2, 4), batch=rng.randint(1, 3), min_idle=rng.randint(0, 2), max_idle=rng.randint(2, 4),
                    pre=[pre_eni(n4=rng.randint(1, 3), n6=rng.randint(0, 2)) for _ in range(rng.randint(0, 2))], vsws=((1, rng.choice([4, 30])), (2, 30)))]
        live, nextp = [], 1
        for _ in range(rng.randint(3, 9)):
            k = rng.choice(["add", "add", "add", "del", "wait", "nap", "plan", "plan", "remove"])
            if k == "add":
                sc.append(dict(a="add", p=nextp)); live.append(nextp); nextp += 1
            elif k == "del" and live:
                sc.append(dict(a="del", p=live.pop(rng.randrange(len(live)))))
            elif k == "wait":
                sc.append(wait)
            elif k == "nap":
                sc.append(nap(rng.choice([30, 130, 300])))
            elif k == "plan":
                sc.append(plan({a: [rng.choice(o) for _ in range(rng.choice([1, 1, 2, 7]))] for a, o in acts if rng.random() < 0.25},
                               mlag=rng.choice([0, 0, 1, 2, 1000]), alag=rng.choice([0, 0, 1, 1000]), dlag=rng.choice([0, 0, 1, 3])))
            elif k == "remove":
                sc.append(dict(a="remove", ei=rng.randint(0, 2), fam=rng.choice([4, 6]) if v6 else 4, idx=rng.randint(0, 3), mlag=rng.choice([0, 1])))
        S.append(sc)
    return S


def build(ctx, fake_time):
    """Test binary of pkg/factory/aliyun; fake_time: GOEXPERIMENT=synctest (the scenarios run on a virtual clock)."""
    old = os.environ.get("GOEXPERIMENT")
    try:
        if fake_time:
            os.environ["GOEXPERIMENT"] = "synctest"
        else:
            os.environ.pop("GOEXPERIMENT", None)
        b = go_build_tests(ctx, [PKG])[PKG]
    finally:
        if old is None:
            os.environ.pop("GOEXPERIMENT", None)
        else:
            os.environ["GOEXPERIMENT"] = old
    dst = b + (".sync" if fake_time else ".real")
    shutil.move(b, dst)
    return dst


def run_harness(ctx, binary, scen_file, nshard, tag, timeout=900, test="TestVerifFactory"):
    def one(k):
        tf = os.path.join(ctx.scratch, "factory.%s.%d.trace.ndjson" % (tag, k))
        rc, out = run_test_bin(ctx, binary, test, env=dict(VERIF_SCEN=scen_file, VERIF_TRACE=tf, VERIF_SHARD="%d/%d" % (k, nshard)),
                               timeout=timeout)
        if rc != 0 or not os.path.exists(tf):
            raise MachineryError("factory harness (%s) shard %d failed rc=%s\n%s" % (tag, k, rc, out[-3000:]))
        rows = read_ndjson(tf)
        rows.sort(key=lambda r: r["seq"])
        return tc.split_traces(rows)
    with concurrent.futures.ThreadPoolExecutor(max_workers=nshard) as ex:
        parts = list(ex.map(one, range(nshard)))
    return [t for p in parts for t in p]


DROP = ("seq", "msg", "plan", "fake_time", "free", "trunk")


def strip(t):
    return [{k: v for k, v in r.items() if k not in DROP} for r in t]


def cost(sc):
    """Rough real-time cost of a scenario in seconds (constants of aliyun.go), used to pick the real-clock sample."""
    s = 0
    for st in sc:
        if st.get("a") != "call":
            continue
        never = "never" in (st.get("mlag"), st.get("alag"))
        s += {"create": 3, "assign": 1, "unassign": 1, "delete": 5}.get(st["k"], 0) + st.get("mlag", 0) * 1 if not never else 12
        s += sum(len(v) for v in st.get("plan", {}).values()) * 0.1
    return s


def tags(t):
    s = set()
    for r in t:
        if r["ev"] == "http":
            if r["out"] == "lost": s.add("lost_reply")
            if r["out"] == "err": s.add("refused")
            if r.get("plan", "").startswith("partial"): s.add("partial")
            if r["tok"] and r["out"] == "ok" and not r["eff"] and r["act"] in ("CreateNetworkInterface", "AssignPrivateIpAddresses", "AssignIpv6Addresses"):
                s.add("token_replay")
        if r["ev"] == "ret" and r["err"]:
            s.add("call_failed")
            if r["k"] == "create" and r["eni"]["e"]: s.add("eni_with_error")
            if r["k"] == "assign" and (r["v4"] or r["v6"]): s.add("addrs_with_error")
        if r["ev"] == "env" and r["k"] == "remote_remove": s.add("remote_remove")
    if any(r["ev"] == "call" and r["c"] == 2 for r in t): s.add("two_callers")
    return s


def classify(pid, bad):
    ev = bad.get("ev", "?")
    if ev == "ret":
        return "%s_factory_%s_return%s" % (pid.lower(), bad.get("k"), "_error" if bad.get("err") else "")
    if ev == "http":
        return "%s_factory_request_%s" % (pid.lower(), bad.get("act"))
    if ev == "quiescent":
        return "%s_stack_pool_vs_cloud_at_quiescence" % pid.lower()
    return "%s_factory_at_%s" % (pid.lower(), ev)


class Sub:
    """A private slice of the context so that TLC runs / builds can go in parallel threads (vlib names scratch dirs by run count)."""
    def __init__(self, ctx, name):
        self.ctx, self.name = ctx, name
        self.scratch = ctx.sub("par-" + name)
        self.seed, self.tier, self.prop = ctx.seed, ctx.tier, ctx.prop
        self.tlc_runs, self.tlc_states, self.tlc_transitions, self.notes = [], 0, 0, []

    @property
    def quick(self):
        return self.tier == "quick"

    def sub(self, name):
        p = os.path.join(self.scratch, name)
        os.makedirs(p, exist_ok=True)
        return p

    def merge(self):
        self.ctx.tlc_runs += self.tlc_runs
        self.ctx.tlc_states += self.tlc_states
        self.ctx.tlc_transitions += self.tlc_transitions
        self.ctx.notes += self.notes


def prepare(ctx):
    """MC + scenarios + builds + harness runs, once per ctx; the independent parts run in parallel threads."""
    if getattr(ctx, "_factory", None):
        return ctx._factory
    q = ctx.quick
    t00 = time.time()
    subs = []

    def sub(name):
        s = Sub(ctx, name)
        subs.append(s)
        return s

    def do_mc():
        s = sub("mc")
        mc = tlc_mc(s, "Factory_mc", "Factory_mc.cfg" if q else "Factory_mc_thorough.cfg", timeout=1500, coverage=not q, workers=8)
        states, trans = mc.distinct, mc.generated
        if not q:
            mc6 = tlc_mc(s, "Factory_mc", "Factory_mc_thorough6.cfg", timeout=1500, workers=8)
            states, trans = states + mc6.distinct, trans + mc6.generated
        return mc, states, trans

    def do_gen(cfg):
        s = sub("gen-" + cfg)
        out = []
        with open(tc.simulate(s, "Factory_mc", cfg, num=120 if q else 1500, depth=120)) as fh:
            for line in fh:
                if line.strip():
                    out.append(("tlc", json.loads(line)))
        return out

    own = [("directed", s) for s in directed()] + [("random", s) for s in random_scenarios(ctx.seed, 250 if q else 4500)]
    # the real-clock sample: cheap scenarios (the constants of aliyun.go are paid), one per process
    cheap = [s for _, s in own if cost(s) <= (6 if q else 25)]
    random.Random(ctx.seed).shuffle(cheap)
    cheap = cheap[:24 if q else 96]
    rf = os.path.join(ctx.scratch, "factory.real.scen.ndjson")
    with open(rf, "w") as fh:
        for s in cheap:
            fh.write(json.dumps(s) + "\n")

    def do_build():
        s = sub("build")
        return build(s, True), build(s, False)      # one after the other: GOEXPERIMENT is process-wide

    with concurrent.futures.ThreadPoolExecutor(max_workers=6) as ex:
        f_mc = ex.submit(do_mc)
        f_gen = [ex.submit(do_gen, cfg) for cfg in ("Factory_gen.cfg", "Factory_gen4.cfg")]
        f_build = ex.submit(do_build)
        sync_bin, real_bin = f_build.result()
        t0 = time.time()
        f_real = ex.submit(run_harness, ctx, real_bin, rf, max(len(cheap), 1), "real", 300 if q else 900)
        scens = [x for f in f_gen for x in f.result()] + own
        sf = os.path.join(ctx.scratch, "factory.scen.ndjson")
        with open(sf, "w") as fh:
            for _, s in scens:
                fh.write(json.dumps(s) + "\n")
        traces = run_harness(ctx, sync_bin, sf, 8 if q else 16, "sync")
        log("factory: %d scenarios on the virtual clock: %d traces, %.1fs after the builds" % (len(scens), len(traces), time.time() - t0))
        # full stack: the real pool (pkg/eni Manager + Locals) on top of the real factory, virtual clock only
        sscens = stack_scenarios(ctx.seed, 40 if q else 900)
        ssf = os.path.join(ctx.scratch, "factory.stack.scen.ndjson")
        with open(ssf, "w") as fh:
            for s in sscens:
                fh.write(json.dumps(s) + "\n")
        stack = run_harness(ctx, sync_bin, ssf, 8 if q else 16, "stack", test="TestVerifFactoryStack")
        log("factory: %d full-stack scenarios: %d traces, %.1fs after the builds" % (len(sscens), len(stack), time.time() - t0))
        real = f_real.result()
        log("factory: %d scenarios on the real clock, %.1fs after the builds" % (len(real), time.time() - t0))
        mc, states, trans = f_mc.result()
    for s in subs:
        s.merge()
    log("factory: prepared in %.1fs" % (time.time() - t00))
    ctx._factory = dict(mc=mc, states=states, transitions=trans, scens=scens, traces=traces, real=real, stack=stack,
                        nsrc={k: sum(1 for s, _ in scens if s == k) for k in ("tlc", "directed", "random")})
    return ctx._factory


def stage(ctx, pid):
    assert pid in PIDS
    st = prepare(ctx)
    alltr = st["traces"] + st["real"] + st["stack"]
    t0 = time.time()
    vs = Sub(ctx, "val-" + pid)        # private scratch: the stages of one ctx may validate in parallel threads
    rej = tc.validate_many(vs, "Factory_trace", trace_cfg(pid), [strip(t) for t in alltr], max_reruns=8)
    vs.merge()
    log("factory: %d traces validated for %s in %.1fs, %d rejected" % (len(alltr), pid, time.time() - t0, len(rej)))
    for k, line in rej:
        t = alltr[k]
        bad = t[line - 1] if line - 1 < len(t) else {}
        calls = [r for r in t[:line] if r["ev"] == "call"]
        add_violation(ctx, classify(pid, bad), dict(failing_line=line, event=bad, call=calls[-1] if calls else {}, reset=t[0], trace=t[1:line + 1][-60:]),
                      what="line %d %s" % (line, json.dumps({k: v for k, v in bad.items() if k not in ("seq",)})[:400]))
    tagc = {}
    for t in alltr:
        for g in tags(t):
            tagc[g] = tagc.get(g, 0) + 1
    relevant = {"lost_reply", "refused", "partial", "token_replay", "eni_with_error", "addrs_with_error", "remote_remove", "two_callers"}
    return dict(states=st["states"], transitions=st["transitions"], traces=len(alltr), traces_validated_against_impl=len(alltr),
                evaluations=len(alltr), traces_virtual_clock=len(st["traces"]), traces_real_clock=len(st["real"]), traces_full_stack=len(st["stack"]),
                events=sum(len(t) for t in alltr), factory_calls=sum(1 for t in alltr for r in t if r["ev"] == "call"),
                http_requests=sum(1 for t in alltr for r in t if r["ev"] == "http"), scenario_sources=st["nsrc"], trace_tags=tagc,
                distinct_nontrivial=len({h(strip(t)) for t in alltr if tags(t) & relevant}), rejected=len(rej),
                coverage_zero_actions=st["mc"].coverage_zero, exhaustive=False, samples=[strip(alltr[0])[:10]],
                rule="scenarios = TLC simulation of Factory_mc.tla (which factory call with which arguments, fault per OpenAPI request, "
                     "metadata / attach / detach lag) + directed histories + seeded random scenarios; executed against the real factory / "
                     "OpenAPI client / metadata reader on a fake HTTP cloud, on a virtual clock (testing/synctest) and a sample on the real "
                     "clock; non-trivial = trace carries one of %s; distinct by trace hash" % sorted(relevant))


ASSUMPTIONS = [
    "only the HTTP transports are fakes: ECS / VPC OpenAPI actions and the 100.100.100.200 metadata paths are answered by one stateful fake cloud mirrored by Factory.tla",
    "the cloud replays the answer of a repeated ClientToken (until that answer is no longer true); a resource whose every announcement was lost is outside C07",
    "lenient cloud: deleting a missing interface and detaching an unattached one succeed; unassign removes what is still assigned and fails only when nothing is",
    "time: scenarios run inside a testing/synctest bubble (virtual clock, production back-off tables) plus a real-clock sample with millisecond back-off tables; "
    "lags (attach, detach, metadata) are counted in observations, never in time",
    "the vSwitch cache does not expire inside a scenario",
    "full stack: the real pool (pkg/eni Manager + Locals wired as in daemon/builder.go) drives the real factory; its factory calls are recorded by a decorator, "
    "the run ends with a drain (healthy cloud, ~15 virtual minutes) and the pool's Status() is compared with the cloud",
]
