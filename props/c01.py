import nodepool


def run(ctx):
    return nodepool.run(ctx, "C01", {"overlap", "multi_alloc", "cancel", "remote_remove"})
