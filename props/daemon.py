"""Shared runner for C04 / C05 / C09 (specs/Daemon.tla, harness daemon TestVerifDaemon / TestVerifKill)."""
import concurrent.futures
from vlib import *
import tracecheck as tc

PKG = "daemon"
NRPC = 10


def trace_cfg(prop):
    """prop = None: no property clause is enforced, only the interface facts of the specification."""
    return ("SPECIFICATION TSpec\nCONSTANTS\n  Pods = {1,2,3,4}\n  Rpcs = {%s}\n  Enis = {1,2,3,4,5,6}\n  Enforce = {%s}\n"
            "CONSTRAINT Inv%s\nCONSTRAINT HighWater\nINVARIANT NotAccepted\nPOSTCONDITION Report\nCHECK_DEADLOCK FALSE\n" % (
                ",".join(str(i) for i in range(1, NRPC + 1)), '"%s"' % prop if prop else "", prop or "None"))


def run_harness(ctx, binary, fam, nshard, env, timeout=1500):
    """The daemon harness in nshard parallel processes, each in its own private network namespace."""
    def one(k):
        tf = os.path.join(ctx.scratch, "daemon.%s.%d.trace.ndjson" % (fam, k))
        e = dict(env)
        e.update(VERIF_TRACE=tf, VERIF_SHARD="%d/%d" % (k, nshard), VERIF_FAMILY=fam, VERIF_NETNS="1")
        rc, out = run_test_bin(ctx, binary, "TestVerifDaemon", env=e, timeout=timeout, netns=True)
        if rc != 0 or not os.path.exists(tf):
            raise MachineryError("daemon harness shard %d failed rc=%s\n%s" % (k, rc, out[-3000:]))
        rows = read_ndjson(tf)
        rows.sort(key=lambda r: r["seq"])
        return tc.split_traces(rows)
    with concurrent.futures.ThreadPoolExecutor(max_workers=nshard) as ex:
        parts = list(ex.map(one, range(nshard)))
    return [t for p in parts for t in p]


def run_kill(ctx, binary, rounds):
    tf = os.path.join(ctx.scratch, "daemon.kill.trace.ndjson")
    rc, out = run_test_bin(ctx, binary, "TestVerifKill", env={"VERIF_TRACE": tf, "VERIF_KILLS": str(rounds)}, timeout=900)
    if rc != 0 or not os.path.exists(tf):
        raise MachineryError("kill sampling failed rc=%s\n%s" % (rc, out[-3000:]))
    rows = read_ndjson(tf)
    rows.sort(key=lambda r: r["seq"])
    return tc.split_traces(rows)


DROP = ("seq", "scen", "fam", "conf", "plan", "point", "n", "ops", "openerr", "cache", "g")


def project(t):
    """What TLC sees: bookkeeping fields dropped, request ids renumbered to the smallest free id (bounded Rpcs)."""
    m, out = {}, []
    for r in t:
        r = {k: v for k, v in r.items() if k not in DROP}
        ev = r["ev"]
        if ev == "rpc_call":
            i = 1
            while i in m.values():
                i += 1
            if i > NRPC:
                raise MachineryError("more than %d requests in flight in one trace" % NRPC)
            m[r["r"]] = i
            r["r"] = i
        elif ev == "k8s_getpod":
            r["r"] = m.get(r["r"], 0)
        elif ev == "rpc_ret":
            r["r"] = m.pop(r["r"], 0)
        elif ev == "crash":
            m.clear()
        elif ev == "cancel":
            r.pop("r", None)
        out.append(r)
    return out


def classify(prop, t, line):
    """Informational label of a rejected step (the verdict is TLC's rejection)."""
    bad = t[line - 1] if 0 < line <= len(t) else {}
    ev = bad.get("ev", "?")
    case = {}
    if ev in ("obs", "restart"):
        disk = {(x["e"], x["a"], x["p"]) for x in bad.get("disk", [])} | {(x["e"], x["a6"], x["p"]) for x in bad.get("disk", []) if x.get("a6")}
        own = {(x["e"], x["a"], x["p"]) for x in bad.get("own", [])}
        lost, ghost = sorted(disk - own), sorted(own - disk)
        case.update(record_without_owner=lost, owner_without_record=ghost, disk_differs_from_memory=bad.get("disk") != bad.get("mem"))
        prev = [r for r in t[:line - 1] if r["ev"] == "rpc_ret"]
        if ev == "obs" and lost and prev and prev[-1]["k"] == "add" and not prev[-1]["ok"] and any(x[2] == prev[-1]["p"] for x in lost):
            return "failed_repeat_add_released_acked_address", case
        if lost:
            return "%s_acked_address_not_owned_at_%s" % (prop.lower(), ev), case
        if ghost:
            return "%s_owner_without_record_at_%s" % (prop.lower(), ev), case
    if ev == "gc_ret":
        # records of vanished pods the pass left behind; lo carries the MAC of interface 1, no other interface has a device
        last_obs = [r for r in t[:line - 1] if r["ev"] in ("obs", "restart")]
        recs = last_obs[-1].get("disk", []) if last_obs else []
        case["records_before_pass"] = recs
        case["interfaces_without_device"] = sorted({x["e"] for x in recs if x["e"] != 1})
        if case["interfaces_without_device"] and bad.get("err"):
            return "gc_blocked_by_missing_interface", case
        return "gc_vanished_pod_not_collected_in_two_passes", case
    return "%s_at_%s" % (prop.lower(), ev), case


def tags(t):
    s = set()
    open_, inh = {}, set()
    gc_in = False
    for r in t:
        ev = r["ev"]
        if ev == "rpc_call":
            if r["p"] in open_.values(): s.add("same_pod_overlap")
            if open_: s.add("overlap")
            open_[r["r"]] = r["p"]
            if gc_in: s.add("rpc_during_gc")
        elif ev == "rpc_ret":
            open_.pop(r["r"], None)
            inh.discard(r["r"])
            if r["code"] == "processing": s.add("processing")
            if not r["ok"] and r["k"] == "add" and r["code"] in ("canceled", "error"): s.add("failed_add")
        elif ev == "k8s_getpod":
            inh.add(r["r"])
        elif ev == "cancel": s.add("cancel")
        elif ev == "gc_call":
            gc_in = True
            s.add("gc")
            if inh: s.add("gc_while_request_inside")
        elif ev == "gc_ret":
            gc_in = False
            if r["err"]: s.add("gc_error")
        elif ev == "k8s_podexist" and r["err"]: s.add("api_failure")
        elif ev == "crash":
            s.add("crash")
            if r.get("point") not in ("idle", "sigkill"): s.add("crash_inside_request")
            if r.get("point") == "sigkill": s.add("sigkill")
            open_.clear(); inh.clear(); gc_in = False
        elif ev == "probe": s.add("probe")
        elif ev == "env_detach": s.add("detach")
        elif ev == "env_pod" and (not r["api"] or r["loc"] != "run"): s.add("pod_vanished")
        elif ev == "env_pod" and r["sticky"]: s.add("sticky")
        elif ev == "cl_end": s.add("cloud_call")
        elif ev in ("put_end", "del_end") and not r["ok"]: s.add("db_write_fault")
        elif ev == "env_disturb": s.add("gc_cleanup_fault")
        elif ev == "reset" and r.get("conf", {}).get("v6"): s.add("dual_stack")
        elif ev == "reset" and r.get("conf", {}).get("realdb"): s.add("real_InitResourceDB")
        elif ev == "reset" and r.get("conf", {}).get("policy") == "least_ips" and r["conf"].get("slots", 0) > (1 if r["conf"].get("n1") else 0) + (1 if r["conf"].get("n2") else 0): s.add("least_ips_with_empty_slot")
        elif ev == "reset" and r.get("conf", {}).get("realk8s"): s.add("real_k8s_client")
        elif ev == "k8s_podexist" and r["exist"] and "real_k8s_client" in s: s.add("watch_cache_lagged_behind_running_pod")
    return s


def run(ctx, prop, fam, relevant, assumptions):
    q = ctx.quick
    cfg = "Daemon_mc_%s.cfg" % fam if q else "Daemon_mc_%s_thorough.cfg" % fam
    try:
        mc = tlc_mc(ctx, "Daemon_mc", cfg, timeout=600 if q else 1500, coverage=not q)
    except MachineryError as e:
        # TLC's disk state queue was seen to hang once (StatePoolWriter, all workers blocked, no CPU): one more try
        if "timed out" not in str(e):
            raise
        ctx.notes.append("TLC %s timed out once, repeated" % cfg)
        mc = tlc_mc(ctx, "Daemon_mc", cfg, timeout=600 if q else 1500, coverage=not q)
    nscen = {"c04": (48, 600), "c05": (24, 320), "c09": (48, 600)}[fam][0 if q else 1]
    nrand = {"c04": (48, 600), "c05": (24, 320), "c09": (48, 600)}[fam][0 if q else 1]
    scen = tc.simulate(ctx, "Daemon_mc", "Daemon_gen_%s.cfg" % fam, num=nscen, depth=150)
    bins = go_build_tests(ctx, [PKG])
    traces = run_harness(ctx, bins[PKG], fam, 32 if fam == "c05" else 16, {"VERIF_SCEN": scen, "VERIF_RANDOM": str(nrand)})
    nkill = 0
    if prop == "C05":
        kt = run_kill(ctx, bins[PKG], 16 if q else 300)
        nkill = len(kt)
        traces += kt
    proj = [project(t) for t in traces]
    rej = tc.validate_many(ctx, "Daemon_trace", trace_cfg(prop), proj, max_reruns=6)
    for k, line in rej:
        t = traces[k]
        bad = t[line - 1] if line - 1 < len(t) else {}
        # who is to blame: a step that is rejected although no property clause is enforced fails an interface fact
        # (the fakes and the specification disagree, or the driver is wrong): machinery, never a verdict
        ok, hw, _ = tc.validate(ctx, "Daemon_trace", trace_cfg(None), proj[k], tag="blame")
        if not ok and hw <= line:
            raise MachineryError("trace %d (scenario %s) fails an interface fact of Daemon.tla at line %d: %s" % (
                k, t[0].get("scen"), hw, json.dumps({a: b for a, b in (t[hw - 1] if hw - 1 < len(t) else {}).items() if a not in ("disk", "mem")})[:400]))
        label, case = classify(prop, t, line)
        case.update(failing_line=line, event=bad, reset=t[0], trace=t[max(1, line - 25):line + 1])
        add_violation(ctx, label, case, what="line %d %s" % (line, json.dumps({k: v for k, v in bad.items() if k not in ('seq', 'disk', 'mem', 'cloud')})[:300]))
    tagc = {}
    for t in traces:
        for g in tags(t):
            tagc[g] = tagc.get(g, 0) + 1
    nt = len({h(p) for p, t in zip(proj, traces) if tags(t) & relevant})
    cov = dict(states=mc.distinct, transitions=mc.generated, traces_validated_against_impl=len(traces), evaluations=len(traces),
               distinct_nontrivial=nt, events=sum(len(t) for t in traces), trace_tags=tagc,
               restart_probes=sum(1 for t in traces for r in t if r["ev"] == "probe"),
               restarts=sum(1 for t in traces for r in t if r["ev"] == "restart"), kill_rounds=nkill,
               rule="scenarios = TLC simulation of Daemon_mc.tla projected on the driver alphabet (pod changes, request call with "
                    "a gate inside the handler / cancel / release, GC, interface detach, API failure, kill) + seeded random "
                    "scenarios of the family (cancellation at every touch of the request context, crash points, (records x pods) "
                    "matrices); every step is followed by a quiescent observation (disk, mirror, pool owners) when nothing is in "
                    "flight; non-trivial = trace carries one of the tags %s; distinct by hash of the projected trace" % sorted(relevant),
               samples=[proj[0][:16]], coverage_zero_actions=mc.coverage_zero, exhaustive=False)
    return finish(ctx, "model_checking", cov, assumptions + [
        "the system under test is the real networkService (constructed field by field) on the real eni.Manager/Local and the real "
        "storage.NewDiskStorage on a bolt file; fakes: cloud (factory.Factory), API server (k8s.Kubernetes); IPv4 only, ENIMultiIP mode, non-CRD IPAM",
        "a restart rebuilds the service from a copy of the bolt file and of the cloud state through the pieces of the real start-up path "
        "(NewDiskStorage -> List -> filterENINotFound -> NewLocal/NewManager -> Run -> load); the few orchestration lines of "
        "builder.setupENIManager around them are replicated in the harness",
        "a reply is logged after the handler returned; the specification accounts for that (see Daemon.tla, lenient readings)",
        "the harness runs in a private network namespace whose only device (lo) carries the MAC of interface 1; every other interface has no device",
        "the pool's rate limiters are replaced by fast ones as in the repository's own tests; the 300 ms factory sleep is paid"])
