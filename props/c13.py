"""C13 -- the programmed datapath routes pod traffic as intended and is fully removed.

specs/Fib.tla (Linux policy routing), specs/Datapath.tla (Setup/Teardown with implementation-bound effect + the
property clauses), Datapath_mc.tla (bounded closure with a reference design, scenario generator), Datapath_trace.tla.
Harness: harness/overlay/plugin/datapath/zz_verif_datapath_test.go
  level 1: generate*Cfg* of all four datapaths, nic.Conf values judged with the model kernel of Fib.tla;
  level 2: real PolicyRoute / ExclusiveENI Setup, GenericTearDown, PolicyRoute.Teardown in private network namespaces,
           kernel dumps judged; thorough tier: `ip route get` answers must equal Fib.tla's Lookups.
"""
import concurrent.futures, re, threading
from vlib import *
import tracecheck as tc

PKG = "plugin/datapath"

BAD_DESIGNS = [  # (seeded design error, MCDps, MCFams, MCTrunk, MCEnis): each must be refused by a guard of Datapath.tla
    ("no_to_pod_rule", '{"policy"}', '{"dual"}', "{FALSE}", "{1}"),
    ("from_rule_to_main", '{"policy"}', '{"v4"}', "{FALSE}", "{1}"),
    ("trunk_uses_member_gateway", '{"policy"}', '{"dual"}', "{TRUE}", "{1}"),
    ("v6_rule_for_v4_pod", '{"policy"}', '{"v4"}', "{FALSE}", "{1, 2}"),
    ("no_stub_neighbour", '{"policy"}', '{"dual"}', "{FALSE}", "{1}"),
    ("teardown_keeps_link", '{"policy"}', '{"v4"}', "{FALSE}", "{1, 2}"),
    ("teardown_keeps_from_rule", '{"policy"}', '{"dual"}', "{FALSE}", "{1, 2}"),
    ("teardown_flushes_eni_table", '{"policy"}', '{"dual"}', "{FALSE}", "{1}"),
]

MC_TMPL = """SPECIFICATION MCSpec
CONSTANTS
  Enforce = {"C13"}
  NsIds = %(ns)s
  Atts = %(atts)s
  MCPods = %(pods)s
  MCDps = %(dps)s
  MCFams = %(fams)s
  MCTrunk = %(trunk)s
  MCExtra = %(extra)s
  MCMulti = %(multi)s
  MCHow = %(how)s
  MCSteal = %(steal)s
  MCEniGone = %(enigone)s
  MCEnis = %(enis)s
  BadDesign = "%(bad)s"
  GenLen = 0
  GenOn = FALSE
INVARIANT %(inv)s
CHECK_DEADLOCK FALSE
"""

TRACE_CFG = ("SPECIFICATION TSpec\nCONSTANTS\n  NsIds = {0, 1, 2, 3}\n  Atts = {1, 2, 3, 4, 5, 6}\n  Enforce = {\"C13\"}\n"
             "CONSTRAINT InvC13\nCONSTRAINT HighWater\nINVARIANT NotAccepted\nPOSTCONDITION Report\nALIAS Short\nCHECK_DEADLOCK FALSE\n")

# the one option combination whose Setup is known to return an error on the unchanged tree (recorded as an observation)
OBSERVE_SCEN = [
    [dict(a="setup", p=1, i=0, dp="exclusive", fam="dual", eni=1, multi=True, extra=0, trunk=False, aset=0, peer=True, how="", **{"def": True}),
     dict(a="setup", p=1, i=1, dp="exclusive", fam="dual", eni=2, multi=True, extra=0, trunk=False, aset=0, peer=True, how="", **{"def": False}),
     dict(a="setup", p=2, i=0, dp="policy", fam="dual", eni=1, multi=False, extra=1, trunk=False, aset=0, peer=True, how="", **{"def": True}),
     dict(a="setup", p=2, i=0, dp="policy", fam="dual", eni=1, multi=False, extra=1, trunk=False, aset=0, peer=True, how="", **{"def": True}),
     dict(a="setup", p=2, i=0, dp="policy", fam="dual", eni=1, multi=False, extra=1, trunk=False, aset=0, peer=True, how="", **{"def": True}),
     dict(a="teardown", p=1, how="cni"), dict(a="teardown", p=2, how="cni")],
    # the fallback DEL leaves the pod's rules behind; its address then goes to a new pod on the other ENI, later on the same ENI
    [dict(a="setup", p=1, i=0, dp="policy", fam="dual", eni=1, multi=False, extra=0, trunk=False, aset=0, peer=True, how="", keep=False, **{"def": True}),
     dict(a="setup", p=2, i=0, dp="policy", fam="v4", eni=2, multi=False, extra=1, trunk=False, aset=0, peer=True, how="", keep=False, **{"def": True}),
     dict(a="teardown", p=1, how="generic"),
     dict(a="setup", p=1, i=0, dp="policy", fam="dual", eni=2, multi=False, extra=0, trunk=False, aset=0, peer=True, how="", keep=True, **{"def": True}),
     dict(a="teardown", p=1, how="generic"),
     dict(a="setup", p=1, i=0, dp="policy", fam="dual", eni=2, multi=False, extra=1, trunk=False, aset=0, peer=True, how="", keep=True, **{"def": True}),
     dict(a="teardown", p=2, how="generic"),
     dict(a="setup", p=2, i=0, dp="exclusive", fam="v4", eni=1, multi=False, extra=0, trunk=False, aset=0, peer=True, how="", keep=True, **{"def": True}),
     dict(a="teardown", p=1, how="cni"), dict(a="teardown", p=2, how="cni")],
    # the ENI two veth pods share vanishes before their DEL: both teardown variants then run with ENIIndex 0
    [dict(a="setup", p=1, i=0, dp="policy", fam="dual", eni=1, multi=False, extra=0, trunk=False, aset=0, peer=True, how="", keep=False, **{"def": True}),
     dict(a="setup", p=2, i=0, dp="policy", fam="v4", eni=1, multi=False, extra=1, trunk=False, aset=0, peer=True, how="", keep=False, **{"def": True}),
     dict(a="setup", p=3, i=0, dp="policy", fam="dual", eni=2, multi=False, extra=0, trunk=False, aset=0, peer=True, how="", keep=False, **{"def": True}),
     dict(a="enigone", eni=1),
     dict(a="teardown", p=1, how="dp"), dict(a="teardown", p=2, how="cni"), dict(a="teardown", p=3, how="cni")],
    # pod 1's DEL is lost; its address goes to pod 2 on the same ENI and, after pod 2, pod 3's address to pod 2's slot on the other ENI;
    # the late DELs of the old pods run afterwards
    [dict(a="setup", p=1, i=0, dp="policy", fam="dual", eni=1, multi=False, extra=0, trunk=False, aset=0, peer=True, how="", keep=False, steal=0, **{"def": True}),
     dict(a="setup", p=3, i=0, dp="policy", fam="v4", eni=1, multi=False, extra=1, trunk=False, aset=0, peer=True, how="", keep=False, steal=0, **{"def": True}),
     dict(a="setup", p=2, i=0, dp="policy", fam="dual", eni=1, multi=False, extra=0, trunk=False, aset=0, peer=True, how="", keep=False, steal=1, **{"def": True}),
     dict(a="teardown", p=1, how="cni"),
     dict(a="teardown", p=2, how="cni"),
     dict(a="setup", p=2, i=0, dp="policy", fam="v4", eni=2, multi=False, extra=0, trunk=False, aset=0, peer=True, how="", keep=False, steal=3, **{"def": True}),
     dict(a="teardown", p=3, how="dp"), dict(a="teardown", p=2, how="dp")]]


class Sub:
    """A private slice of the context so that TLC runs can go in parallel threads (vlib names scratch dirs by run count)."""
    def __init__(self, ctx, name):
        self.ctx, self.name = ctx, name
        self.scratch = ctx.sub("par-" + name)
        self.seed, self.tier, self.prop = ctx.seed, ctx.tier, ctx.prop
        self.tlc_runs, self.tlc_states, self.tlc_transitions, self.notes = [], 0, 0, []

    def sub(self, name):
        p = os.path.join(self.scratch, name)
        os.makedirs(p, exist_ok=True)
        return p

    def merge(self):
        self.ctx.tlc_runs += self.tlc_runs
        self.ctx.tlc_states += self.tlc_states
        self.ctx.tlc_transitions += self.tlc_transitions
        self.ctx.notes += self.notes


def mc_run(ctx, name, params, workers, expect_refused=False, timeout=1500):
    s = Sub(ctx, name)
    stage = s.sub("stage")
    with open(os.path.join(stage, "Datapath_mc_%s.cfg" % name), "w") as fh:
        fh.write(MC_TMPL % params)
    res = tlc(s, "Datapath_mc", cfg="Datapath_mc_%s.cfg" % name, workers=workers, timeout=timeout, stage=stage, tag=name)
    s.merge()
    if not res.ok:
        what = ("seeded design error %s is NOT refused by the guards (vacuous guard)" % name) if expect_refused else "spec-level run did not pass"
        raise MachineryError("Datapath_mc/%s: %s (rc=%s) %s\n%s" % (name, what, res.rc, res.errors[:3], res.out[-2500:]))
    if not expect_refused and "C13BAD" in res.out:
        raise MachineryError("Datapath_mc/%s: the reference design is refused by a guard:\n%s" % (name, "\n".join(re.findall(r"C13BAD.*", res.out)[:5])))
    if expect_refused and "C13BAD" not in res.out:
        raise MachineryError("Datapath_mc/%s: no guard fired for the seeded design error" % name)
    log("TLC Datapath_mc/%s: %d generated, %d distinct, %.1fs" % (name, res.generated, res.distinct, res.wall))
    return res


def model_checking(ctx):
    """Exhaustive runs of the bounded closure (reference design accepted, invariant implied) and of the seeded design errors."""
    q = ctx.quick
    base = dict(ns="{0, 1, 2}", atts="{1, 2, 3, 4}", pods="{1, 2}", extra="{1}", multi="{FALSE, TRUE}", enis="{1, 2}", bad="", inv="InvC13", how='{"cni"}', enigone="FALSE", steal="FALSE")
    runs = [("all4", dict(base, dps='{"policy", "exclusive", "ipvlan", "vlan"}', fams='{"dual"}', trunk="{FALSE}"), 8 if q else 6),
            ("fam", dict(base, dps='{"policy", "ipvlan"}', fams='{"v4", "v6", "dual"}', trunk="{FALSE, TRUE}", extra="{0, 1}", multi="{FALSE}", enis="{1}"), 4),
            # fallback DEL (GenericTearDown alone) leaves rules behind; the slot's next pod may get the same address on either ENI
            # an ENI vanishes while pods use it: their teardown runs without an ENI index and must still remove their rules
            ("enigone", dict(base, dps='{"policy", "exclusive"}', fams='{"dual"}', trunk="{FALSE}", multi="{FALSE}" if q else "{FALSE, TRUE}", enigone="TRUE"), 4),
            # a pod is given the address of a veth pod that was never torn down (lost / late DEL), the old pod's fallback DEL comes later
            ("steal", dict(base, dps='{"policy"}' if q else '{"policy", "exclusive"}', fams='{"dual"}', trunk="{FALSE}", multi="{FALSE}", steal="TRUE"), 4),
            ("reuse", dict(base, dps='{"policy"}', fams='{"v4"}' if q else '{"dual"}', trunk="{FALSE}", multi="{FALSE}", how='{"cni", "generic"}'), 4)]
    if not q:
        runs += [("pods3", dict(base, ns="{0, 1, 2, 3}", atts="{1, 2, 3, 4, 5, 6}", pods="{1, 2, 3}", dps='{"policy"}', fams='{"v4", "dual"}', trunk="{FALSE}"), 6),
                 ("pods3x", dict(base, ns="{0, 1, 2, 3}", atts="{1, 2, 3, 4, 5, 6}", pods="{1, 2, 3}", dps='{"policy", "exclusive"}', fams='{"dual"}',
                                 trunk="{FALSE}", multi="{FALSE}"), 4),
                 ("mixed", dict(base, dps='{"policy", "exclusive", "ipvlan", "vlan"}', fams='{"v4", "v6"}', trunk="{FALSE, TRUE}", multi="{FALSE}", enis="{1}"), 4),
                 ("mixed2", dict(base, dps='{"policy", "exclusive"}', fams='{"v4", "v6"}', trunk="{FALSE, TRUE}", multi="{FALSE}"), 6),
                 ("multi", dict(base, dps='{"policy", "exclusive", "ipvlan", "vlan"}', fams='{"v6"}', trunk="{FALSE}", multi="{TRUE}"), 4),
                 ("reuse2", dict(base, dps='{"policy", "exclusive"}', fams='{"dual"}', trunk="{FALSE}", multi="{FALSE}", how='{"cni", "generic"}'), 6)]
    bad = [(b[0], dict(base, dps=b[1], fams=b[2], trunk=b[3], enis=b[4], bad=b[0], inv="BadRefused", multi="{FALSE}"), 1) for b in BAD_DESIGNS]
    # a stale from-rule of a re-used address survives Setup: only manifests after a generic teardown and re-use on the other ENI
    bad.append(("teardown_skips_rules_without_eni", dict(base, dps='{"policy"}', fams='{"dual"}', trunk="{FALSE}", bad="teardown_skips_rules_without_eni",
                                                         inv="OrphanRefused", multi="{FALSE}", enigone="TRUE"), 1))
    bad.append(("stale_route_kept", dict(base, dps='{"policy"}', fams='{"dual"}', trunk="{FALSE}", bad="stale_route_kept", inv="StealRefused",
                                         multi="{FALSE}", steal="TRUE"), 1))
    bad.append(("stale_from_rule_kept", dict(base, dps='{"policy"}', fams='{"dual"}', trunk="{FALSE}", bad="stale_from_rule_kept", inv="ReuseRefused",
                                             multi="{FALSE}", how='{"generic"}'), 1))
    out = {}
    with concurrent.futures.ThreadPoolExecutor(max_workers=6) as ex:
        futs = {ex.submit(mc_run, ctx, n, p, w, False): n for n, p, w in runs}
        futs.update({ex.submit(mc_run, ctx, n, p, w, True): n for n, p, w in bad})
        for f in concurrent.futures.as_completed(futs):
            out[futs[f]] = f.result()
    return sum(out[n].distinct for n, _, _ in runs), sum(out[n].generated for n, _, _ in runs), [b[0] for b in bad]


def strip(t):
    drop = ("seq", "scen", "level", "err", "what", "step")
    return [{k: v for k, v in r.items() if k not in drop} for r in t]


def tags(t):
    s = set()
    cfgs = [r["cfg"] for r in t if r["ev"] in ("setup_c", "setup_d") and r.get("ok", True)]
    by_eni = {}
    for c in cfgs:
        if c["dp"] in ("policy", "ipvlan"):
            by_eni.setdefault(c["eni"], set()).add(c["pod"])
        if c["multi"] and c["ifname"] == "eth1": s.add("multi_network_second_interface")
        if c["strip"]: s.add("trunk")
        if c["extra"]: s.add("extra_routes")
        if c["ip4"] and c["ip6"]: s.add("dual_stack")
        if not c["ip4"]: s.add("v6_only")
        s.add("dp_" + c["dp"])
    if any(len(v) >= 2 for v in by_eni.values()): s.add("pods_share_eni")
    live = set()
    left = {}     # address -> ENI it was last held on, after a generic teardown
    held = {}
    for r in t:
        if r["ev"] == "setup_d" and r["ok"] and r["cfg"]["dp"] == "policy":
            key = json.dumps([r["cfg"]["ip4"], r["cfg"]["ip6"]])
            if key in left:
                s.add("address_reused_after_fallback_del")
                if left.pop(key) != r["cfg"]["eni"]: s.add("address_reused_on_other_eni_after_fallback_del")
            held[r["cfg"]["pod"]] = (key, r["cfg"]["eni"])
        if r["ev"] == "teardown_d" and r.get("how") == "generic":
            s.add("fallback_del_generic_only")
            if r["pod"] in held: left[held[r["pod"]][0]] = held[r["pod"]][1]
        if r["ev"] == "teardown_d": held.pop(r["pod"], None)
        if r["ev"] in ("setup_c", "setup_d") and r.get("ok", True): live.add(r["cfg"]["pod"])
        if r["ev"] == "setup_d" and not r["ok"]: s.add("setup_error")
        if r["ev"] == "teardown_d":
            live.discard(r["pod"])
            s.add("teardown")
            if live: s.add("teardown_while_others_live")
    holder = {}
    for r in t:
        if r["ev"] == "setup_d" and r["ok"]:
            key = json.dumps([r["cfg"]["ip4"], r["cfg"]["ip6"]])
            if key in holder and holder[key] != r["cfg"]["pod"]: s.add("address_taken_over_before_del")
            holder[key] = r["cfg"]["pod"]
        if r["ev"] == "teardown_d":
            for k2 in [k2 for k2, v2 in holder.items() if v2 == r["pod"]]: del holder[k2]
    gone = set()
    for r in t:
        if r["ev"] == "enigone":
            s.add("eni_vanished")
            gone.add(r["eni"])
        if r["ev"] == "setup_d" and r["ok"] and r["cfg"]["dp"] == "policy": held[("e", r["cfg"]["pod"])] = r["cfg"]["eni"]
        if r["ev"] == "teardown_d" and held.pop(("e", r["pod"]), None) in gone and r.get("how") != "generic":
            s.add("teardown_without_eni_index")
    if any(r["ev"] == "rget" for r in t): s.add("kernel_lookups_compared")
    return s


RELEVANT = {"address_taken_over_before_del", "teardown_without_eni_index", "address_reused_after_fallback_del", "pods_share_eni", "multi_network_second_interface", "trunk", "extra_routes", "dual_stack", "v6_only", "teardown_while_others_live"}


def run_harness(ctx, binary, test, scen_file, nrandom, nshard, netns, extra_env=None):
    def one(k):
        tf = os.path.join(ctx.scratch, "%s.%d.trace.ndjson" % (test, k))
        e = {"VERIF_TRACE": tf, "VERIF_SCEN": scen_file, "VERIF_RANDOM": str(nrandom), "VERIF_SHARD": "%d/%d" % (k, nshard)}
        e.update(extra_env or {})
        rc, out = run_test_bin(ctx, binary, test, env=e, timeout=1200, netns=netns)
        if rc != 0 or not os.path.exists(tf):
            raise MachineryError("harness %s shard %d failed rc=%s\n%s" % (test, k, rc, out[-3000:]))
        rows = read_ndjson(tf)
        rows.sort(key=lambda r: r["seq"])
        return tc.split_traces(rows)
    with concurrent.futures.ThreadPoolExecutor(max_workers=nshard) as ex:
        parts = list(ex.map(one, range(nshard)))
    return [t for p in parts for t in p]


def validate_parallel(ctx, traces, nthreads, chunk):
    """tc.validate_many over slices of the traces in parallel threads. Returns [(trace_index, line)]."""
    if not traces:
        return []
    n = max(1, min(nthreads, (len(traces) + chunk - 1) // chunk))
    slices = [list(range(k, len(traces), n)) for k in range(n)]
    def one(j):
        s = Sub(ctx, "val%d" % j)
        rej = tc.validate_many(s, "Datapath_trace", TRACE_CFG, [strip(traces[i]) for i in slices[j]], chunk=chunk, timeout=1500, max_reruns=6)
        s.merge()
        return [(slices[j][k], line) for k, line in rej]
    with concurrent.futures.ThreadPoolExecutor(max_workers=n) as ex:
        return [x for part in ex.map(one, range(n)) for x in part]


def diagnose(ctx, trace, k):
    """Re-validate one rejected trace alone to read which clauses the specification reports."""
    s = Sub(ctx, "diag%d" % k)
    ok, hw, res = tc.validate(s, "Datapath_trace", TRACE_CFG, strip(trace), timeout=900)
    s.merge()
    clauses = sorted(set(re.findall(r'"([a-z_:0-9]+)"', " ".join(re.findall(r'"C13BAD",\s*\{(.*?)\}', res.out, re.S)))))
    fib = "FIBMODEL" in res.out
    return ok, hw, clauses, fib, res.out[-1500:]


def judge(ctx, traces, nthreads, chunk):
    """Validate the traces; every rejected trace becomes a violation (or a machinery error when an interface fact failed)."""
    rej = validate_parallel(ctx, traces, nthreads, chunk)

    for n, (k, line) in enumerate(sorted(rej)):
        t = traces[k]
        bad = t[line - 1] if line - 1 < len(t) else {}
        ok, hw, clauses, fib, tail = diagnose(ctx, t, n)
        if bad.get("ev") == "rget" or (fib and not clauses):
            raise MachineryError("Fib.tla disagrees with the kernel (`ip route get`) at line %d of a level-2 trace: %s\n%s" % (
                line, json.dumps({x: bad.get(x) for x in ("ns", "pkt", "res")}), tail))
        if ok:
            raise MachineryError("trace %d rejected in a batch but accepted alone" % k)
        if not clauses:
            raise MachineryError("trace %d rejected at line %d without a C13 clause (interface fact failed): %s\n%s" % (
                k, line, json.dumps({x: v for x, v in bad.items() if x not in ("dump", "confs", "links")})[:800], tail))
        brief = {x: v for x, v in bad.items() if x not in ("dump", "confs", "links", "seq")}
        case = dict(level=t[0].get("level"), failing_line=line, clauses=clauses, event=brief,
                    steps=[{x: v for x, v in r.items() if x not in ("dump", "confs", "links", "seq")} for r in t[:line] if r["ev"] != "rget"],
                    confs=bad.get("confs"), host_after=next((d for d in bad.get("dump", []) if d.get("ns") == 0), None))
        for cl in clauses:
            add_violation(ctx, cl, case, what="level %s, %s of pod %s (%s, att %s): %s" % (
                t[0].get("level"), bad.get("ev"), bad.get("pod", (bad.get("cfg") or {}).get("pod")),
                (bad.get("cfg") or {}).get("dp", "-"), (bad.get("cfg") or {}).get("att", "-"), cl))

    return rej


def replay(ctx):
    """Drive the scenario of a recorded violation again through the current code (same level) and judge the new trace."""
    p = ctx.replay
    f = os.path.join(p, "violation.json") if os.path.isdir(p) else p
    with open(f) as fh:
        v = json.load(fh)
    case = v["case"]
    ctx.seed = int(v.get("seed", ctx.seed))      # random address plans are seeded
    steps = [s["step"] for s in case["steps"] if "step" in s]
    if not steps:
        raise MachineryError("the replay bundle carries no scenario steps")
    scen = os.path.join(ctx.scratch, "replay.scen.ndjson")
    with open(scen, "w") as fh:
        fh.write(json.dumps(steps) + "\n")
    bins = go_build_tests(ctx, [PKG])
    if case.get("level") == 2:
        traces = run_harness(ctx, bins[PKG], "TestVerifDatapathL2", scen, 0, 1, True, extra_env={"VERIF_RGET": "1"})
    else:
        traces = run_harness(ctx, bins[PKG], "TestVerifDatapathL1", scen, 0, 1, False)
    judge(ctx, traces, 1, 10)
    cov = dict(traces_validated_against_impl=len(traces), evaluations=sum(len(t) for t in traces), distinct_nontrivial=len(traces),
               rule="replay of one recorded scenario", samples=[steps], exhaustive=False)
    return finish(ctx, "model_checking", cov, ["replay: the recorded scenario steps are driven again through the current working tree"])


def run(ctx):
    if getattr(ctx, "replay", None):
        return replay(ctx)
    q = ctx.quick
    result = {}

    def mc_job():
        result["mc"] = model_checking(ctx)

    th = threading.Thread(target=_guard, args=(mc_job, result))
    th.start()
    try:
        gen = Sub(ctx, "gen")
        scen1 = tc.simulate(gen, "Datapath_mc", "Datapath_gen.cfg", num=150 if q else 2000, depth=6, timeout=900)
        scen2 = tc.simulate(gen, "Datapath_mc", "Datapath_gen2.cfg", num=40 if q else 320, depth=12, timeout=900)
        # address re-use after the fallback DEL: two veth pods, teardowns mostly generic, so most scenarios re-use an address
        scen3 = tc.simulate(gen, "Datapath_mc", "Datapath_gen3.cfg", num=16 if q else 120, depth=10, timeout=900)
        gen.merge()
        with open(scen2, "a") as fh:
            fh.write(open(scen3).read())
            for sc in OBSERVE_SCEN:
                fh.write(json.dumps(sc) + "\n")
        bins = go_build_tests(ctx, [PKG])
        l1 = run_harness(ctx, bins[PKG], "TestVerifDatapathL1", scen1, 30 if q else 400, 1, False)
        l2 = run_harness(ctx, bins[PKG], "TestVerifDatapathL2", scen2, 8 if q else 80, 4 if q else 12, True,
                         extra_env={} if q else {"VERIF_RGET": "1"})
    finally:
        th.join()
    if result.get("mcerr"):
        raise result["mcerr"]
    mc_states, mc_trans, bad_names = result["mc"]

    traces = l1 + l2
    for t in traces:
        for r in t:
            if r["ev"] == "panic":
                raise MachineryError("a configuration generator panicked: %s" % json.dumps(r)[:600])
    if not l1 or not l2:
        raise MachineryError("no traces recorded (level 1: %d, level 2: %d)" % (len(l1), len(l2)))
    judge(ctx, traces, 8 if q else 12, 40 if q else 30)

    tagc, errs = {}, {}
    for t in traces:
        for g in tags(t):
            tagc[g] = tagc.get(g, 0) + 1
        for r in t:
            if r["ev"] in ("setup_d", "teardown_d") and not r["ok"]:
                key = "%s %s: %s" % (r["ev"], (r.get("cfg") or {}).get("dp", ""), re.sub(r"cali\d+|eni\d+|veth\w+", "<if>", r.get("err", ""))[:120])
                errs[key] = errs.get(key, 0) + 1
    nt = len({h(strip(t)) for t in traces if tags(t) & RELEVANT})
    n_setup1 = sum(1 for t in l1 for r in t if r["ev"] == "setup_c")
    n_setup2 = sum(1 for t in l2 for r in t if r["ev"] == "setup_d" and r["ok"])
    n_td = sum(1 for t in l2 for r in t if r["ev"] == "teardown_d")
    n_rget = sum(1 for t in l2 for r in t if r["ev"] == "rget")
    if n_setup2 == 0 or n_td == 0:
        raise MachineryError("level 2 did not run a successful Setup and a Teardown (setups ok %d, teardowns %d, errors %s)" % (n_setup2, n_td, errs))
    sample = [{k: v for k, v in r.items() if k not in ("dump", "seq")} for r in strip(l1[0])[1:2]]
    cov = dict(states=mc_states, transitions=mc_trans, traces_validated_against_impl=len(traces), evaluations=n_setup1 + n_setup2 + n_td,
               distinct_nontrivial=nt, level1_traces=len(l1), level1_setups=n_setup1, level2_traces=len(l2), level2_setups_ok=n_setup2,
               level2_teardowns=n_td, kernel_route_get_comparisons=n_rget, trace_tags=tagc, setup_or_teardown_errors_observed=errs,
               seeded_design_errors_refused=bad_names, exhaustive=False,
               rule="scenarios = TLC simulation of Datapath_mc.tla (setup of a pod interface with datapath x family x ENI x default route x "
                    "multi-network x extra routes x trunk x address plan, second interface of a multi-network pod, teardown as CNI DEL, by "
                    "PolicyRoute.Teardown alone or as the fallback DEL = GenericTearDown alone, a new pod given the address of the slot's "
                    "previous pod on the same or the other ENI, an ENI vanishing from the node while pods use it so that their teardown runs with ENIIndex 0, a pod given the address of a veth pod "
                    "that was never torn down, whose late fallback DEL follows) + seeded random scenarios with random address plans; level 1 = all four datapaths' "
                    "generators judged with the model kernel, level 2 = real Setup/Teardown of policy-route veth and exclusive ENI in private "
                    "network namespaces judged on kernel dumps; non-trivial = trace carries one of %s; distinct by trace hash" % sorted(RELEVANT),
               samples=sample)
    return finish(ctx, "model_checking", cov, [
        "the sandbox kernel lacks ipvlan, 802.1q vlan, dummy, prio qdisc and u32/vlan tc actions: the ipvlan and vlan datapaths, trunk (StripVlan) "
        "and every tc part (vlan tag/untag filters, egress priority, bandwidth) are decided at level 1 only (generated nic.Conf values applied by "
        "the model kernel of Fib.tla); their imperative Setup/Teardown code is not run",
        "level 2 uses veth pairs as stand-ins for ENIs; GenericTearDown deletes a veth instead of renaming it and moving it back as it does for a "
        "physical ENI, so the return of an exclusive ENI to the host namespace is not observed",
        "Fib.tla models rules (priority, from/to prefix, iif/oif), longest-prefix match with metric tie-break per table, local/main/default "
        "tables; no fwmark, tos, multipath, source-specific IPv6 subtrees; in the thorough tier every `ip route get` answer of the kernel for "
        "the probed packets equals the model's Lookups on the dumped state (otherwise exit 2)",
        "probed packets: pod address as destination (locally generated, forwarded from the ENI / eth0, from every other policy-route pod's veth) "
        "and pod address as source towards 203.0.113.77 / 2001:db8:ffff::77 and towards each extra-route destination",
        "one address plan (subnet + gateway per ENI) per scenario; extra routes only for enabled families; a pod has at most one interface "
        "with DefaultRoute; pods sharing an ENI agree on trunk mode (the daemon's contract, C12's domain)",
        "lenient readings: a rule without address selector (oif rule) is family-neutral; kernel-made state (proto kernel routes, link-local "
        "addresses) is not attributed to Setup; for the veth datapath the in-pod next hop may be the link-local stub or the configured gateway; "
        "per-ENI shared state (table 1000+ifindex, gateway host route, addresses on the ENI) is not pod-specific; a Setup/Teardown that returns "
        "an error promises nothing for that pod but must leave the others intact",
        "the fallback DEL (utils.GenericTearDown alone, what cmdDel does when the daemon has no allocation record) is not required to remove the "
        "pod's rules/routes; the leftovers stay in the state and every later Setup (same address on the same or another ENI) is judged with them",
        "after an ENI vanished nothing is required of the traffic of the pods that used it; their Teardown (ENIIndex 0, as parseTearDownConf builds it "
        "when the MAC no longer resolves) must still remove their rules/routes/links and leave the others intact",
        "when a pod is given an address another pod still carries, that pod is taken to be gone (superseded: nothing promised about it); its late DEL "
        "is the fallback DEL (the daemon, having recycled the address, has no record of it) -- a full PolicyRoute.Teardown of the OLD pod would select "
        "rules by the shared address and remove the new pod's rules; that history needs the daemon to hand out an address it still records (outside C13)",
        "level 1 applies a nic.Conf with the model's semantics of addr/route/rule replace; nic.Setup and the Ensure* helpers themselves run at level 2 only"])


def _guard(fn, result):
    try:
        fn()
    except Exception as e:      # re-raised in the main thread
        result["mcerr"] = e
