"""Shared runner for C02 / C03 / C08 (specs/Ipam.tla; harness pkg/controller/multi-ip/node TestVerifIpam).

The harness runs the REAL cluster IPAM controller (ReconcileNode) and the REAL daemon side of the protocol
(eni.CRDV2 multiIP / Release / syncNodeRuntime / syncDeletedPods, daemon.cleanRuntimeNode) in one process over a
fake API server and a fake cloud; TLC judges every recorded trace against Ipam.tla with Enforce = {property}.
Environment classes: C02 is quantified over drift and partially bound initial records as well (VERIF_IPAM_ENV=all),
C03 / C08 are not (clean).

Self-test aids (never set by ./check or the manifest commands; default: strict):
  VERIF_IPAM_KNOWN=label,label   set aside rejections carrying these informational clause labels (used only to run the mutants
                                 while a genuine finding of the unchanged tree is neither fixed nor registered as known finding)
  VERIF_IPAM_SKIP=family,...     replace the named directed scenario families (lifecycle, resandbox, shrink, faulty, rollback,
                                 rdma, gcstale) by the plain random family."""
import json, os, concurrent.futures
from vlib import *
import tracecheck as tc

PKG = "pkg/controller/multi-ip/node"
ENV = {"C02": "all", "C03": "clean", "C08": "clean"}


def trace_cfg(prop):
    return ("SPECIFICATION TSpec\nCONSTANTS\n  Pods = {1,2,3,4}\n  Uids = {%s}\n  Enis = {%s}\n  Enforce = {\"%s\"}\n"
            "CONSTRAINT Inv%s\nCONSTRAINT HighWater\nINVARIANT NotAccepted\nPOSTCONDITION Report\nCHECK_DEADLOCK FALSE\n" % (
                ",".join(str(i) for i in range(1, 61)), ",".join(str(i) for i in range(1, 25)), prop, prop))


def prepare_scenarios(path):
    """TLC records a fault decision when the abstract controller reaches the call, i.e. after the 'reconcile' marker
    of that operation; the driver needs the plan before it calls Reconcile: move plan steps in front of the marker."""
    out = []
    with open(path) as fh:
        for line in fh:
            line = line.strip()
            if not line:
                continue
            sc = json.loads(line)
            res = []
            for st in sc:
                if st.get("a") == "plan":
                    k = len(res)
                    while k > 0 and res[k - 1].get("a") == "plan":
                        k -= 1
                    if k > 0 and res[k - 1].get("a") == "reconcile":
                        res.insert(k - 1, st)
                        continue
                res.append(st)
            out.append(res)
    with open(path, "w") as fh:
        for sc in out:
            fh.write(json.dumps(sc) + "\n")
    return len(out)


def run_harness(ctx, binary, nshard, env):
    """Each ENI creation in the ECS path sleeps 3 s: run the scenarios in nshard parallel processes."""
    def one(k):
        tf = os.path.join(ctx.scratch, "ipam.%d.trace.ndjson" % k)
        e = dict(env)
        e.update(VERIF_TRACE=tf, VERIF_SHARD="%d/%d" % (k, nshard))
        rc, out = run_test_bin(ctx, binary, "TestVerifIpam", env=e, timeout=1500)
        if rc != 0 or not os.path.exists(tf):
            key = [l for l in out.splitlines() if any(w in l for w in ("zz_verif", "panic", "--- FAIL", "fatal error", "goroutine "))][:12]
            raise MachineryError("ipam harness shard %d failed rc=%s\n%s\n%s" % (k, rc, "\n".join(key), out[-1500:]))
        rows = read_ndjson(tf)
        rows.sort(key=lambda r: r["seq"])
        return tc.split_traces(rows)
    with concurrent.futures.ThreadPoolExecutor(max_workers=nshard) as ex:
        parts = list(ex.map(one, range(nshard)))
    return [t for p in parts for t in p]


def strip(t):
    drop = ("seq", "plan", "scen", "env", "muts", "err", "kind", "faults", "rounds", "write", "full", "found")
    return [{k: v for k, v in r.items() if k not in drop} for r in t]


def tags(t):
    s = set()
    cf = t[0].get("conf", {})
    if cf.get("v4") and cf.get("v6"): s.add("dual")
    if cf.get("rdma"): s.add("rdma")
    if cf.get("trunk"): s.add("trunk")
    if cf.get("init") in ("takeover", "partial"): s.add("takeover")
    up, deleted = set(), set()
    prev = None
    for r in t:
        ev = r["ev"]
        if r.get("plan", "ok") != "ok": s.add("fault")
        if ev == "cr_write" and not r["ok"]: s.add("write_fail")
        if ev == "flush" and not r["ok"]: s.add("report_lost")
        if ev == "create_begin": s.add("eni_create")
        if ev == "delete_begin": s.add("eni_delete")
        if ev == "unassign_begin": s.add("trim")
        if ev in ("drift_remove", "drift_add"): s.add("drift")
        if ev == "restart": s.add("restart")
        if ev == "cni_add" and r["ok"]:
            if r["u"] in deleted: s.add("resandbox")
            up.add(r["u"])
        if ev == "cni_del":
            up.discard(r["u"]); deleted.add(r["u"])
        if ev == "pod_gone" and r["u"] in up: s.add("forced_delete")
        if ev == "rt" and r["by"] == "daemon" and any(x["del"] for x in r["pods"]): s.add("teardown_reported")
        if ev == "pod_exist": s.add("agent_gc")
        if ev == "cr":
            cur = {(x["e"], x["a"]): x["p"] for x in r["ips"]}
            if prev is not None:
                if any(p and cur.get(k, 0) != p for k, p in prev.items()): s.add("release")
                if any(p and prev.get(k, 0) != p for k, p in cur.items()): s.add("bind")
            prev = cur
    return s


def _rounds(t, lo, hi):
    """Split t[lo:hi] into reconciles: (record before, events, record after)."""
    out, prev, cur = [], None, None
    for r in t[:lo]:
        if r["ev"] in ("cr", "reset"):
            prev = r
    for r in t[lo:hi]:
        if r["ev"] == "reconcile_begin":
            cur = []
        elif r["ev"] == "cr" and cur is not None:
            out.append((prev, cur, r))
            prev, cur = r, None
        elif cur is not None:
            cur.append(r)
    return out


def _osc_window(t, line):
    d = next((i for i, r in enumerate(t) if r["ev"] == "drain"), None)
    if d is None:
        return None
    rounds = _rounds(t, d, line - 1)
    return rounds[-8:] if len(rounds) >= 10 else None


def _idle_elsewhere(before, e, v4, rdma_class):
    """Idle Valid unbound addresses of that family in the record, on in-use interfaces other than e whose RDMA flag is rdma_class."""
    inuse = {x["e"]: x for x in before["enis"] if x["st"] == "InUse"}
    return [i for i in before["ips"] if i["p"] == 0 and i["st"] == "Valid" and (i["a"] < 100) == v4 and i["e"] != e
            and i["e"] in inuse and inuse[i["e"]]["rdma"] == rdma_class]


def _oscillation_signature(t, line):
    """Known finding D19 only: in the last 8 reconciles of the drain no interface comes or goes, the controller keeps
    assigning an address on interface X although the record it started from holds an idle Valid unbound address of that
    family on another in-use interface Y of the same class (the demand was already covered elsewhere), and the surplus
    is trimmed again. Anything else that fails to reach a fixed point keeps a generic label."""
    w = _osc_window(t, line)
    if w is None:
        return False
    hits, assigns, trims = set(), set(), set()
    for k, (before, evs, after) in enumerate(w):
        inuse = {x["e"]: x for x in before["enis"] if x["st"] == "InUse"}
        for r in evs:
            if r["ev"] in ("create_begin", "delete_begin", "detach", "attach"):
                return False
            if r["ev"] == "unassign_begin":
                trims.add(k)
            if r["ev"] == "assign_begin":
                assigns.add(k)
                x = inuse.get(r["e"])
                if x is not None and _idle_elsewhere(before, r["e"], r["fam"] == 4, x["rdma"]):
                    hits.add(k)
    return len(hits) >= 2 and len(trims) >= 2 and len(hits) * 2 >= len(assigns) - 1


def _rdma_oscillation_signature(t, line):
    """A different shape of non-convergence on a node with an RDMA interface: the controller keeps growing an ordinary
    interface (assign or create) although no ordinary interface lacks nothing but the idle addresses of the RDMA interface,
    which only the trimming side counts; the surplus is trimmed (or the new interface deleted) again."""
    w = _osc_window(t, line)
    if w is None or not t[0].get("conf", {}).get("rdma"):
        return False
    v4 = bool(t[0]["conf"].get("v4"))
    hits, shrinks = set(), set()
    for k, (before, evs, after) in enumerate(w):
        inuse = {x["e"]: x for x in before["enis"] if x["st"] == "InUse"}
        for r in evs:
            if r["ev"] in ("unassign_begin", "delete_begin"):
                shrinks.add(k)
            grow = (r["ev"] == "assign_begin" and r["e"] in inuse and not inuse[r["e"]]["rdma"] and (r["fam"] == 4) == v4) or \
                   (r["ev"] == "create_begin" and not r["rdma"])
            if grow and not _idle_elsewhere(before, r.get("e", 0), v4, False) and _idle_elsewhere(before, 0, v4, True):
                hits.add(k)
    return len(hits) >= 2 and len(shrinks) >= 2


def _dual_oscillation_signature(t, line):
    """A third shape (dual stack): the IPv6 pool is below its minimum (no idle Valid IPv6 address on any ordinary in-use
    interface), so one is assigned; the trimming side sizes the surplus on the IPv4 idle count of all in-use interfaces
    (more than the maximum, e.g. untrimmable primary addresses, idle addresses of the RDMA interface) and takes the new
    IPv6 address away again."""
    w = _osc_window(t, line)
    cf = t[0].get("conf", {})
    if w is None or not (cf.get("v4") and cf.get("v6")):
        return False
    hits, trims6 = set(), set()
    for k, (before, evs, after) in enumerate(w):
        inuse = {x["e"]: x for x in before["enis"] if x["st"] == "InUse" and not x["rdma"]}
        allinuse = {x["e"] for x in before["enis"] if x["st"] == "InUse"}
        idle = [i for i in before["ips"] if i["p"] == 0 and i["st"] == "Valid" and i["e"] in inuse]
        idle6 = [i for i in idle if i["a"] >= 100]
        # adjustPool counts the IPv4 idle addresses of EVERY in-use interface (RDMA ones and primaries included)
        idle4 = [i for i in before["ips"] if i["p"] == 0 and i["st"] == "Valid" and i["e"] in allinuse and i["a"] < 100]
        for r in evs:
            if r["ev"] in ("create_begin", "delete_begin", "detach", "attach"):
                return False
            if r["ev"] == "unassign_begin" and r["fam"] == 6:
                trims6.add(k)
            if r["ev"] == "assign_begin" and r["fam"] == 6 and not idle6 and len(idle4) > cf.get("max", 0):
                hits.add(k)
    return len(hits) >= 2 and len(trims6) >= 2


def _trunk_record_dropped_signature(t, line, e):
    """Another leak shape: a trunk interface whose attach and roll-back delete failed was recorded as Deleting, then a
    full synchronisation dropped the record entry (it only looks up / deletes Secondary interfaces) without deleting it."""
    st, described = 0, False
    for r in t[:line - 1]:
        ev = r["ev"]
        if ev == "reconcile_begin":
            described = False
        elif ev == "describe":
            described = True
        elif ev == "create_end" and r.get("e") == e:
            if r["type"] != "Trunk":
                return False
            st = 1
        elif st == 1 and ev == "attach" and r["e"] == e:
            if r["effect"]:
                return False
            st = 2
        elif st == 2 and ev == "delete_end" and r["e"] == e:
            if r["effect"]:
                return False
            st = 3
        elif st == 3 and ev == "cr":
            if not any(x["e"] == e and x["st"] == "Deleting" for x in r["enis"]):
                return False
            st = 4
        elif st == 4 and ev in ("detach", "delete_begin") and r["e"] == e:
            return False
        elif st == 4 and ev == "cr" and not any(x["e"] == e for x in r["enis"]):
            return described
    return False


def _lost_rollback_signature(t, line, e):
    """Known finding D20 only: interface e was created, its attach failed, the roll-back delete failed and the status
    update of that very reconcile failed, so the 'Deleting' record never reached the API server."""
    st = 0
    for r in t[:line - 1]:
        ev = r["ev"]
        if ev == "create_end" and r.get("e") == e:
            st = 1
        elif st == 1 and ev == "attach" and r["e"] == e:
            if r["effect"] or r.get("plan", "ok") == "ok":
                return False
            st = 2
        elif st == 2 and ev == "delete_end" and r["e"] == e:
            if r["effect"]:
                return False
            st = 3
        elif st == 3 and ev == "cr_write":
            return not r["ok"]
        elif st in (1, 2, 3) and ev == "cr":
            return False                          # the reconcile ended without that sequence
    return False


def classify(prop, t, line):
    """Informational label of a rejection (the verdict is TLC's)."""
    bad = t[line - 1] if 0 < line <= len(t) else {}
    ev = bad.get("ev", "?")
    label = "%s_at_%s" % (prop.lower(), ev)
    if prop == "C02" and ev == "cr":
        # dual stack split over two interfaces because a pod that kept its IPv6 binding got a new IPv4 elsewhere?
        prev = {}
        for r in t[:line - 1]:
            if r["ev"] in ("cr", "reset"):
                prev = {(x["e"], x["a"]): x["p"] for x in r["ips"]}
        byp = {}
        for x in bad["ips"]:
            if x["p"]:
                byp.setdefault(x["p"], []).append(x)
        for p, xs in byp.items():
            v4 = [x for x in xs if x["a"] < 100]
            v6 = [x for x in xs if x["a"] >= 100]
            if len(v4) == 1 and len(v6) == 1 and v4[0]["e"] != v6[0]["e"] and \
                    prev.get((v6[0]["e"], v6[0]["a"])) == p and prev.get((v4[0]["e"], v4[0]["a"])) != p:
                return "c02_v4_rebound_on_other_eni_than_v6"
        return label
    if prop == "C08" and ev == "fixpoint":
        if not bad.get("stable"):
            if _oscillation_signature(t, line):
                return "c08_oscillation_idle_on_other_eni"
            if _rdma_oscillation_signature(t, line):
                return "c08_oscillation_rdma_idle_counted_by_trim_only"
            if _dual_oscillation_signature(t, line):
                return "c08_oscillation_v6_trimmed_for_v4_surplus"
            return "c08_no_fixed_point"
        leaked = [c["e"] for c in bad.get("cloud", []) if not c["att"]]
        if leaked:
            if all(_lost_rollback_signature(t, line, e) for e in leaked):
                return "c08_leak_after_failed_rollback_and_lost_record"
            if all(_trunk_record_dropped_signature(t, line, e) for e in leaked):
                return "c08_leak_trunk_deleting_record_dropped_by_full_sync"
            return "c08_leaked_interface"
        return "c08_fixed_point_state"
    if prop == "C08" and ev == "assign_begin":
        # over-quota request: right after a describe, into an interface whose map of that family is empty in the record?
        rec, described = 0, False
        for r in t[:line - 1]:
            if r["ev"] == "reconcile_begin": described = False
            elif r["ev"] == "describe": described = True
            elif r["ev"] in ("cr", "reset"):
                rec = sum(1 for x in r["ips"] if x["e"] == bad["e"] and (x["a"] < 100) == (bad["fam"] == 4))
        return "c08_overquota_after_sync_into_empty_map" if described and rec == 0 else "c08_overquota_request"
    if prop != "C03" or ev not in ("cr", "unassign_begin", "detach", "delete_begin"):
        return label
    # replay the environment up to the failing line to say which part of the reclaim rule was broken
    pods, rt, up, told, prev = {}, {}, set(), set(), {}
    for x in t[0].get("pods", []):
        pods[x["p"]] = (x["u"], x["live"])
        if x.get("up"): up.add(x["u"])
    for x in t[0].get("ips", []):
        if x["p"]: prev[(x["e"], x["a"])] = (x["p"], x["u"], x["st"])
    for r in t[1:line - 1]:
        e = r["ev"]
        if e == "pod_create": pods[r["p"]] = (r["u"], True)
        elif e == "pod_gone": pods.pop(r["p"], None)
        elif e == "pod_exit": pods[r["p"]] = (r["u"], False)
        elif e == "cni_add" and r["ok"]: up.add(r["u"]); told.discard(r["u"])
        elif e == "cni_del": up.discard(r["u"]); told.discard(r["u"])
        elif e == "flush" and r["ok"]: told |= up
        elif e == "rt": rt = {x["u"]: (x["ini"], x["del"]) for x in r["pods"]}
        elif e == "cr": prev = {(x["e"], x["a"]): (x["p"], x["u"], x["st"]) for x in r["ips"] if x["p"]}
    if ev == "cr":
        cur = {(x["e"], x["a"]): (x["p"], x["u"], x["st"]) for x in bad["ips"]}
        hit = [v for k, v in prev.items() if cur.get(k, (0, 0, ""))[0] != v[0] or (cur[k][2] == "Deleting" and v[2] != "Deleting")]
        hit = hit or list(prev.values())
    else:
        hit = [v for k, v in prev.items() if k[0] == bad.get("e") and (ev != "unassign_begin" or k[1] in bad.get("addrs", []))]
    for p, u, _ in hit:
        if p in pods and pods[p][1]:
            return "c03_reclaimed_while_pod_exists"
    for p, u, _ in hit:
        ini, dl = rt.get(u, (0, 0))
        if u and not (dl and dl >= ini):
            return "c03_reclaimed_before_teardown_reported"
    for p, u, _ in hit:
        if u in up and u in told:
            return "c03_reclaimed_on_stale_teardown_report"
    return label


def run(ctx, prop, relevant):
    q = ctx.quick
    if q:
        mcs = [tlc_mc(ctx, "Ipam_mc", "Ipam_mc.cfg", timeout=600), tlc_mc(ctx, "Ipam_mc", "Ipam_mc_forced.cfg", timeout=600)]
    else:
        mcs = [tlc_mc(ctx, "Ipam_mc", "Ipam_mc_thorough.cfg", timeout=1500),
               tlc_mc(ctx, "Ipam_mc", "Ipam_mc_forced_thorough.cfg", timeout=900),
               tlc_mc(ctx, "Ipam_mc", "Ipam_mc_dual_thorough.cfg", timeout=900, coverage=True)]
    scen = tc.simulate(ctx, "Ipam_mc", "Ipam_gen.cfg", num=16 if q else 160, depth=90)
    nscen = prepare_scenarios(scen)
    bins = go_build_tests(ctx, [PKG])
    env = {"VERIF_SCEN": scen, "VERIF_RANDOM": "90" if q else "720", "VERIF_IPAM_ENV": ENV[prop]}
    traces = run_harness(ctx, bins[PKG], 16, env)
    rej = tc.validate_many(ctx, "Ipam_trace", trace_cfg(prop), [strip(t) for t in traces], max_reruns=16 if q else 160, chunk=40 if q else 50)
    assumed = set(x for x in os.environ.get("VERIF_IPAM_KNOWN", "").split(",") if x)
    for k, line in rej:
        t = traces[k]
        bad = t[line - 1] if line - 1 < len(t) else {}
        if classify(prop, t, line) in assumed:
            # self-test aid only (mutant runs while a genuine finding is neither fixed nor registered): never set by ./check itself
            ctx.notes.append("violation %s in scenario %s line %d set aside by VERIF_IPAM_KNOWN" % (classify(prop, t, line), t[0].get("scen"), line))
            continue
        add_violation(ctx, classify(prop, t, line), dict(failing_line=line, event=bad, reset=t[0], trace=t[max(1, line - 40):line]),
                      what="scenario %s line %d %s" % (t[0].get("scen"), line, json.dumps({k: v for k, v in bad.items() if k not in ('seq',)})[:400]))
    tagc = {}
    for t in traces:
        for g in tags(t):
            tagc[g] = tagc.get(g, 0) + 1
    nt = len({h(strip(t)) for t in traces if tags(t) & relevant})
    cov = dict(states=sum(m.distinct for m in mcs), transitions=sum(m.generated for m in mcs), traces_validated_against_impl=len(traces),
               evaluations=len(traces), distinct_nontrivial=nt, events=sum(len(t) for t in traces), trace_tags=tagc,
               tlc_scenarios=nscen, environment=ENV[prop],
               rule="scenarios = TLC simulation of Ipam_mc.tla projected on the driver alphabet (pod create/delete(forced)/exit, CNI ADD/DEL, "
                    "report-timer tick ok/failed, 5-min job, agent gc, reconcile (forced full sync, status-update conflict/error), "
                    "controller restart, cloud fault plan, drift) + seeded random scenarios in five families (random, lifecycle, resandbox, "
                    "shrink, faulty) over IPv4/IPv6/dual, 1-2 secondary slots, optional trunk / RDMA slot, cap 2-3, min/max pool, "
                    "0-2 pre-attached interfaces, empty / take-over / partially bound initial records; every scenario ends with a drain "
                    "(healthy cloud, reconcile until stable), a fixed-point observation, a forced full sync and an agreement observation; "
                    "non-trivial = trace carries one of the tags %s; distinct by trace hash" % sorted(relevant),
               samples=[strip(traces[0])[:12]] if traces else [], coverage_zero_actions=[z for m in mcs for z in m.coverage_zero], exhaustive=False)
    return finish(ctx, "model_checking", cov, [
        "controller and daemon side run sequentially in one process: no environment step happens while a Reconcile is running; informer staleness is not modelled",
        "the cloud is a fake register.Interface whose state mirrors Ipam.tla's cloud variable; it enforces the per-interface and per-instance quotas; "
        "a lookup by interface id returns the interface whatever its attachment; an error after the effect of CreateNetworkInterface without a result is left to C16",
        "ECS backend only (EFLO / LENI path not driven); vSwitch pool real with one healthy vSwitch, a block set after an exhaustion error is lifted at the drain",
        "time is data: the 1 s reconcile throttle is reset, gcPeriod is 0, full sync is forced by ageing nextSyncOpenAPITime, 'initial' stamps are aged by 2 min after they are written",
        "a pod is identified by namespace/name (as in the record); a binding re-labelled to a same-named successor pod is not an unbinding (lenient)",
        "C03: a teardown report that predates a later successful ADD of the same pod UID counts as stale once the agent had a successful flush opportunity after that ADD",
        "C08: quotas judged on what the controller can know; idle band judged on the primary family, upper end on non-primary addresses"])
