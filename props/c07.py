import nodepool


def run(ctx):
    return nodepool.run(ctx, "C07", {"fault", "cancel", "delete_eni"})
