from vlib import *
import funcspec


def run(ctx):
    return funcspec.check(
        ctx, "AddrMath",
        entries=[("zzverif/funcs", "TestVerifAddrMath", False), ("plugin/datapath", "TestVerifDstRule", False)],
        rule="TLC enumerates DomSeq of specs/AddrMath.tla completely (prefix lengths 0..32 / 0..128 x base addresses x "
             "boundary probes; subnets for the gateway; (namespace,name,interfaces) triples; ifindex lists); a case is "
             "non-trivial when the probe differs from the base address or the function is not a classifier",
        nontrivial=lambda m: m["in"].get("probe") != m["in"].get("ip"),
        domain_note="IPv4: 5 bases x /0../32 x probes (network, last, complement, single-bit flips around the prefix "
                    "boundary; all 32/128 flips in the thorough tier); IPv6: 3 bases x /0../128; gateway: 7 v4 + 5 v6 "
                    "bases incl. leading-zero bytes x every prefix length",
        assumptions=["exhaustive within the stated finite domain only, not over all 2^32 / 2^128 addresses",
                     "u32 semantics (word & mask) = val at byte offset in the IP header, as in the kernel's cls_u32",
                     "projection of netlink.TcU32Key to byte tuples is done by harness code"])
