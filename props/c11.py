import podeni


def run(ctx):
    return podeni.run(ctx, "C11", {"ttl_reap", "rebind", "leak_reap", "population", "seen_refresh", "elapse", "conflict", "move"})
