from vlib import *
import funcspec


def _nontrivial(m):
    i = m["in"]
    if i.get("fn") != "add":
        return True
    a = i["allocs"]
    return (len(a) > 1 or i["trunk"] or i["conf"]["vlan"] != "" or i["conf"]["rtin"] or i["conf"]["rtout"]
            or (a[0]["ip4"] and a[0]["ip6"]) or a[0]["routes"] or i["kind"] != "local")


def run(ctx):
    return funcspec.check(
        ctx, "NetConf",
        # no private netns: the ENI lookup by MAC needs a hardware-type link, lo has no MAC
        entries=[("plugin/terway", "TestVerifNetConf", False)],
        rule="TLC enumerates DomSeq of specs/NetConf.tla completely; every case is one ADD: the real daemon service "
             "(AllocIP over eni.Manager and the real Remote / CRDV2 back-ends on a fake API client; the node-local pool "
             "either as a case-built LocalIPResource (kind local) or as the real eni.Local run by the Manager on a fake "
             "cloud factory after a history of earlier ADD/DEL and pool shrinking played through the same service (kind "
             "localpool)), a protobuf hop, then the real plugin code (getCmdArgs, parseSetupConf, getDatePath; "
             "GetIPInfo + parseTearDownConf for DEL); TLC judges reply and SetupConfigs with Bad(c). Non-trivial = more "
             "than one interface, trunking, VLAN mode, bandwidth override, dual stack, extra routes or a non-local back-end",
        nontrivial=_nontrivial,
        domain_note="slices: A back-end(11: local, CRD multi-IP, PodENI via remote / via CRD x pod network type x trunk) x "
                    "stack(v4, v6, dual) x subnet(/24 /28 /25 /30, v6 /64 /120; thorough adds /10 /16 /20 /29 /30@.252, "
                    "/56 /96 /112 /126) x address position(first, middle, gateway-1, gateway+1); B 1..3 interfaces x names "
                    "('', eth0, eth1, net2) x every default-route flag vector; C VLAN mode('', filter, vlan) x runtime "
                    "ingress/egress override x pod limits x back-end; D extra-route lists; E real node-local pool (one interface "
                    "slot): history(fresh slot, served from idle addresses, interface shared with a pod that stays, partial shrink on the same interface, whole "
                    "interface of another vSwitch deleted and slot re-used, partial then whole deletion) x stack(v4, dual) "
                    "x subnet(/24 /28 /25, v6 /64 /120) x address position (quick 4 stacks = 24 cases, thorough 25 = 150); "
                    "datapath selector on every IP type x VLAN mode x trunk flag",
        assumptions=["exhaustive within the stated finite domain only",
                     "allocations are well formed in themselves (address inside its vSwitch prefix, prefix present, VLAN id "
                     "recorded for trunk members); inconsistency is explored only in interface names and default-route flags",
                     "node-local pool, kind local: the LocalIPResource is built by the harness from the case (vSwitch prefix and "
                     "gateway as the metadata service reports them). Kind localpool: the resource comes from the real pool; the "
                     "cloud is a fake factory that, like pkg/factory/aliyun, reports the IPv6 subnet/gateway only for an "
                     "interface created with IPv6 addresses; one slot, sequential histories, healthy cloud, cloud-call rate "
                     "limiters replaced by fast ones; no IPv6-only pool (ipStack ipv6 is rejected by the daemon's configuration "
                     "check); concurrency and faults of the pool are C01's subject",
                     "a crash of a pool worker goroutine (not the goroutine of the ADD) ends the harness process: reported as a "
                     "machinery error (exit 2), not as a violation",
                     "ENI lookup by MAC resolves to a hardware-type link of the sandbox (no MAC, lookup skipped, when there is none); ENIIndex is not judged",
                     "which datapath a (IP type, trunk, VLAN mode) triple maps to is not stated by the property and not judged",
                     "IPType VPCIP is not produced by AllocIP; for it only the datapath selector is exercised"])
