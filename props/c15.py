import json
from vlib import *
import funcspec


def _nontrivial(m):
    """A case is non-trivial when the input is not the empty / absent value (every case runs real code)."""
    i = m["in"]
    for k in ("val", "doc", "id", "stdin", "base", "ip4", "pn", "req", "num"):
        if k in i and i[k] not in ([], [""], ["<ABSENT>"]):
            return True
    return i.get("fn") in ("setupconf", "localload", "webhook", "ipset")


ENTRIES = [("pkg/k8s", "TestVerifInputsK8s", False),
           ("pkg/controller/pod-eni", "TestVerifInputsPodENI", False),
           ("pkg/eni", "TestVerifInputsEni", False),
           ("plugin/terway", "TestVerifInputsPlugin", False),
           ("zzverif/funcs", "TestVerifInputsExported", False)]

RULE = ("TLC enumerates DomSeq of specs/Inputs.tla completely: per user-writable field every string of <= 3 (thorough: "
        "up to 4) tokens over the field's token alphabet, and for JSON-valued fields every schema key filled with "
        "every value of a hostile JSON value set; each case is one call of the real parser under recover; a case is "
        "non-trivial when the input is not the empty/absent value")

DOMAIN = ("bandwidth: token strings over digits/sign/dot/exponent/units/blank/NUL/CJK/Unicode digits/JSON "
          "punctuation/4096-char runs + unit ladder (23 unit spellings x 13 numbers); convertPod: one value on "
          "all annotations x 2 daemon modes; pod-networks / pod-networks-request / cpuSet (NUMA) / eni_conf "
          "(base x per-node override) / CNI stdin / stored pod records: hostile JSON values in every schema "
          "position + raw JSON-punctuation strings; webhook: annotated pods (containers 0/1, ipam mode, owner "
          "kind, hostNetwork, eni-config content) and raw admission objects; rpc.NetConf: hostile address strings per "
          "field x all combinations of absent sub-messages; stored pool records: hostile resource ids / ENI ids / addresses")

ASSUMPTIONS = [
    "exhaustive within the bounded token language only, not over all byte strings",
    "well-formed bandwidth = <digits>[.0|.5][K|M|G] (docs/qos.md); other spellings may be accepted or rejected",
    "accepted bandwidth = number x 1000^k or 1024^k (either convention), no unit = the number",
    "malformed = contains a junk token or no token of the field's vocabulary; everything else is free",
    "a panic recovered by controller-runtime's webhook wrapper still counts: the handler is called directly",
    "stored records keep the structure the daemon writes (PodInfo present); rpc ipType / daemon mode / ENI MAC "
    "are not user-writable and take only values the daemon produces",
    "symbolic tokens (<NUL>, <CJK>, <LONG9>, ...) are expanded to bytes by harness code"]

# The generated judge keeps the list of failing cases in its state, so its cost grows with the square of
# the number of failing cases; one crashing parser fails thousands of cases. The cases are therefore
# judged in interleaved slices of at most CHUNK cases (same module, same Bad, every case judged once).
CHUNK = 30000


def run(ctx):
    module = "Inputs"
    consts = {"Tier": '"%s"' % ctx.tier}
    cases = funcspec.generate(ctx, module, consts)
    merged = funcspec.run_harnesses(ctx, cases, ENTRIES)
    k = max(1, (len(merged) + CHUNK - 1) // CHUNK)
    bad = []
    for j in range(k):
        bad += funcspec.judge(ctx, module, consts, merged[j::k])
    byid = {m["id"]: m for m in merged}
    for b in sorted(bad, key=lambda b: b["id"]):
        for cl in b["clauses"]:
            add_violation(ctx, cl, byid[b["id"]], what=json.dumps(byid[b["id"]]["in"], sort_keys=True)[:300])
    fns = {}
    for m in merged:
        fns[m["in"].get("fn", "?")] = fns.get(m["in"].get("fn", "?"), 0) + 1
    nt = len([m for m in merged if _nontrivial(m)])
    samples = [merged[i] for i in sorted({0, len(merged) // 3, (2 * len(merged)) // 3, len(merged) - 1}) if 0 <= i < len(merged)]
    failing = {}
    for b in bad:
        for cl in b["clauses"]:
            key = "%s/%s" % (byid[b["id"]]["in"].get("fn"), cl)
            failing[key] = failing.get(key, 0) + 1
    cov = dict(evaluations=len(merged), distinct_nontrivial=nt, rule=RULE, samples=samples, exhaustive=True,
               traces_validated_against_impl=len(merged), cases_by_function=fns, domain=DOMAIN,
               failing_cases=len(bad), failing_by_function_and_clause=failing, judge_slices=k)
    return finish(ctx, "model_checking", cov, ASSUMPTIONS)
